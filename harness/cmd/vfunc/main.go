// vfunc replays tables produced by TLC from the function specifications (Chunk.tla, Version.tla, ...) into the real
// functions of go-dcp and writes what the real code returned, for TLC to judge (Mon*.tla).
package main

import (
	"bufio"
	"encoding/json"
	"flag"
	"fmt"
	"os"
	"strings"

	"github.com/Trendyol/go-dcp/config"
	"github.com/Trendyol/go-dcp/couchbase"
	"github.com/Trendyol/go-dcp/helpers"
	"github.com/Trendyol/go-dcp/logger"
	"github.com/Trendyol/go-dcp/membership"
	"github.com/Trendyol/go-dcp/stream"
	"github.com/asaskevich/EventBus"
	"github.com/sirupsen/logrus"
)

func quiet() {
	l := logrus.New()
	l.SetLevel(logrus.PanicLevel)
	logger.Log = &logger.Loggers{Logrus: l}
}

// chunk: table lines "n t maxChunk numFull" (the specification's prediction)
func chunk(in, out string, allMembersUpTo int) {
	f, _ := os.Open(in)
	defer f.Close()
	o, _ := os.Create(out)
	defer o.Close()
	w := bufio.NewWriterSize(o, 1<<20)
	defer w.Flush()
	sc := bufio.NewScanner(f)
	pairs, mism, gets := 0, 0, 0
	var firstMis string
	bus := EventBus.New()
	for sc.Scan() {
		var n, t, mx, nf int
		if _, err := fmt.Sscan(sc.Text(), &n, &t, &mx, &nf); err != nil {
			continue
		}
		pairs++
		ids := make([]uint16, n)
		for i := range ids {
			ids[i] = uint16(i)
		}
		var parts [][]uint16
		func() {
			defer func() {
				if r := recover(); r != nil { // the real function crashed on a valid (n,t)
					parts = nil
				}
			}()
			parts = helpers.ChunkSlice[uint16](ids, t)
		}()
		if parts == nil {
			b, _ := json.Marshal(map[string]any{"n": n, "t": t, "members": 0, "runs": [][3]int{}, "contig": false, "gs": [][4]int{}, "full": false})
			w.Write(b)
			w.WriteByte('\n')
			mism++
			continue
		}
		// run-length form of what the real function returned: [count, start, size]
		type run = [3]int
		var runs []run
		okContig := true
		for i, p := range parts {
			start, size := -1, len(p)
			if size > 0 {
				start = int(p[0])
				for k := range p {
					if int(p[k]) != start+k {
						okContig = false
					}
				}
			}
			// conformance with the specification's table
			wantSize := mx
			if i >= nf {
				wantSize = mx - 1
			}
			if size != wantSize {
				mism++
				if firstMis == "" {
					firstMis = fmt.Sprintf("n=%d t=%d member=%d size=%d want=%d", n, t, i+1, size, wantSize)
				}
			}
			if len(runs) > 0 {
				last := &runs[len(runs)-1]
				if last[2] == size && last[1]+last[0]*last[2] == start {
					last[0]++
					continue
				}
			}
			runs = append(runs, run{1, start, size})
		}
		// VBucketDiscovery.Get with static membership, for every member (small n, and small t of the large bucket sizes) or for the
		// first, middle and last member: reported as [member, first vBucket, size, contiguous] and judged by MonChunk.tla on its
		// own (non-empty, contiguous, inside 0..n-1, sizes floor/ceil(n/t), pairwise disjoint, exact cover when all were asked)
		members := []int{1, (t + 1) / 2, t}
		full := n <= allMembersUpTo || t <= 130 || t >= n-2
		if full {
			members = members[:0]
			for m := 1; m <= t; m++ {
				members = append(members, m)
			}
		}
		gs := [][4]int{}
		for _, m := range members {
			got := getStatic(n, t, m, bus)
			gets++
			g := [4]int{m, -1, len(got), 1}
			if len(got) > 0 {
				g[1] = int(got[0])
				for k := range got {
					if int(got[k]) != g[1]+k {
						g[3] = 0
					}
				}
			}
			gs = append(gs, g)
		}
		b, _ := json.Marshal(map[string]any{"n": n, "t": t, "members": len(parts), "runs": runs, "contig": okContig, "gs": gs, "full": full})
		w.Write(b)
		w.WriteByte('\n')
	}
	// purity: ONE long-lived discovery object (dynamic membership, as in a running client) must give, for every
	// membership it is told, exactly what a fresh computation gives - whatever group sizes it has served before
	histMism, histCalls := 0, 0
	for _, n := range []int{1, 2, 3, 7, 8, 16, 33, 64, 128, 1024} {
		hbus := EventBus.New()
		cfg := &config.Dcp{}
		cfg.Dcp.Group.Membership.Type = "dynamic"
		vd := stream.NewVBucketDiscovery(nil, cfg, n, hbus)
		ids := make([]uint16, n)
		for i := range ids {
			ids[i] = uint16(i)
		}
		var sizes []int
		for t := 1; t <= n && t <= 9; t++ {
			sizes = append(sizes, t)
		}
		for t := 9; t >= 1; t-- {
			if t <= n {
				sizes = append(sizes, t, (t*7)%n+1)
			}
		}
		for _, t := range sizes {
			if t > n {
				t = n
			}
			for _, m := range []int{1, t, (t + 1) / 2} {
				hbus.Publish(helpers.MembershipChangedBusEventName, &membership.Model{MemberNumber: m, TotalMembers: t})
				hbus.WaitAsync()
				var got []uint16
				func() {
					defer func() { _ = recover() }()
					got = vd.Get()
				}()
				want := getStatic(n, t, m, bus) // (what a fresh discovery object computes for the same membership)
				histCalls++
				same := len(got) == len(want)
				for k := 0; same && k < len(got); k++ {
					same = got[k] == want[k]
				}
				if !same {
					histMism++
					if firstMis == "" {
						firstMis = fmt.Sprintf("history: n=%d after other group sizes: member %d of %d gets %d vBuckets from %v, a fresh computation %d from %v",
							n, m, t, len(got), first(got), len(want), first(want))
					}
				}
			}
		}
	}
	b, _ := json.Marshal(map[string]any{"summary": true, "pairs": pairs, "get_calls": gets, "spec_mismatches": mism, "first_mismatch": firstMis,
		"history_calls": histCalls, "history_mismatches": histMism})
	fmt.Println(string(b))
}

// getStatic: VBucketDiscovery.Get of a fresh object with static membership m of t over n vBuckets (nil when it crashes)
func getStatic(n, t, m int, bus EventBus.Bus) (got []uint16) {
	cfg := &config.Dcp{}
	cfg.Dcp.Group.Membership.Type = "static"
	cfg.Dcp.Group.Membership.MemberNumber = m
	cfg.Dcp.Group.Membership.TotalMembers = t
	vd := stream.NewVBucketDiscovery(nil, cfg, n, bus)
	defer func() {
		if recover() != nil { // a crash on a valid (n, t, member) is a wrong answer, not a harness failure
			got = nil
		}
	}()
	return vd.Get()
}

func first(l []uint16) int {
	if len(l) == 0 {
		return -1
	}
	return int(l[0])
}

// version: table lines "M m p b  M m p b  rendering-of-a"; plus malformed strings
func version(in, out string) {
	f, _ := os.Open(in)
	defer f.Close()
	o, _ := os.Create(out)
	defer o.Close()
	w := bufio.NewWriterSize(o, 1<<20)
	defer w.Flush()
	sc := bufio.NewScanner(f)
	n := 0
	gates := func(v *couchbase.Version) [3]bool {
		// the expressions of dcp.go newDcp (expiry opcode, change streams) and stream.NewStream (serial close)
		return [3]bool{v.Higher(couchbase.SrvVer650) || v.Equal(couchbase.SrvVer650),
			v.Higher(couchbase.SrvVer720) || v.Equal(couchbase.SrvVer720), v.Lower(couchbase.SrvVer550)}
	}
	for sc.Scan() {
		var a, b [4]int
		var s string
		if _, err := fmt.Sscan(sc.Text(), &a[0], &a[1], &a[2], &a[3], &b[0], &b[1], &b[2], &b[3], &s); err != nil {
			continue
		}
		va := &couchbase.Version{Major: a[0], Minor: a[1], Patch: a[2], Build: a[3]}
		vb := &couchbase.Version{Major: b[0], Minor: b[1], Patch: b[2], Build: b[3]}
		pa := []int{}
		if pv, err := couchbase.VerifParseVersion(s); err == nil && pv != nil {
			pa = []int{pv.Major, pv.Minor, pv.Patch, pv.Build}
		}
		line, _ := json.Marshal(map[string]any{"a": a, "b": b, "h": va.Higher(vb), "e": va.Equal(vb), "l": va.Lower(vb),
			"hr": vb.Higher(va), "ga": gates(va), "gb": gates(vb), "pa": pa})
		w.Write(line)
		w.WriteByte('\n')
		n++
	}
	// malformed and partial strings: expected results are those of Parse in Version.tla (see lib/funcheck.py)
	res := map[string]any{}
	for _, s := range strings.Split(os.Getenv("VERIF_VERSION_STRINGS"), "|") {
		if pv, err := couchbase.VerifParseVersion(s); err == nil && pv != nil {
			res[s] = []int{pv.Major, pv.Minor, pv.Patch, pv.Build}
		} else {
			res[s] = "err"
		}
	}
	b, _ := json.Marshal(map[string]any{"summary": true, "pairs": n, "strings": res})
	fmt.Println(string(b))
}

func main() {
	what := flag.String("what", "", "chunk | ...")
	in := flag.String("in", "", "input table")
	out := flag.String("out", "", "output (ndjson)")
	all := flag.Int("allmembers", 128, "chunk: call VBucketDiscovery.Get for every member when n <= this")
	flag.Parse()
	quiet()
	switch strings.ToLower(*what) {
	case "chunk":
		chunk(*in, *out, *all)
	case "version":
		version(*in, *out)
	case "config":
		configTables(*in, *out)
	case "wire":
		wireTables(*in, *out)
	default:
		fmt.Fprintln(os.Stderr, "unknown -what")
		os.Exit(2)
	}
}
