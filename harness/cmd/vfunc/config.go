package main

import (
	"bufio"
	"encoding/json"
	"fmt"
	"os"
	"path/filepath"
	"strings"
	"time"

	dcp "github.com/Trendyol/go-dcp"
	"github.com/Trendyol/go-dcp/config"
	"github.com/Trendyol/go-dcp/helpers"
	"github.com/Trendyol/go-dcp/logger"
)

// ---- C17: rows printed by Config.tla / ConfigGet.tla / DataUnit.tla / EnvSubst.tla replayed into the real code ----

func ms(v any) time.Duration { return time.Duration(int64(v.(float64))) * time.Millisecond }
func toInt(v any) int        { return int(v.(float64)) }
func toStr(v any) string     { s, _ := v.(string); return s }

// setters / getters per option name of Config.tla (durations in milliseconds, sizes in bytes, lists comma-joined)
type opt struct {
	set func(c *config.Dcp, v any)
	get func(c *config.Dcp) any
}

func size(v any) any {
	if v == nil {
		return 0
	}
	return helpers.ResolveUnionIntOrStringValue(v)
}

var opts = map[string]opt{
	"rollbackMitigation.interval":            {func(c *config.Dcp, v any) { c.RollbackMitigation.Interval = ms(v) }, func(c *config.Dcp) any { return c.RollbackMitigation.Interval.Milliseconds() }},
	"rollbackMitigation.configWatchInterval": {func(c *config.Dcp, v any) { c.RollbackMitigation.ConfigWatchInterval = ms(v) }, func(c *config.Dcp) any { return c.RollbackMitigation.ConfigWatchInterval.Milliseconds() }},
	"checkpoint.interval":                    {func(c *config.Dcp, v any) { c.Checkpoint.Interval = ms(v) }, func(c *config.Dcp) any { return c.Checkpoint.Interval.Milliseconds() }},
	"checkpoint.timeout":                     {func(c *config.Dcp, v any) { c.Checkpoint.Timeout = ms(v) }, func(c *config.Dcp) any { return c.Checkpoint.Timeout.Milliseconds() }},
	"checkpoint.type":                        {func(c *config.Dcp, v any) { c.Checkpoint.Type = toStr(v) }, func(c *config.Dcp) any { return c.Checkpoint.Type }},
	"checkpoint.autoReset":                   {func(c *config.Dcp, v any) { c.Checkpoint.AutoReset = toStr(v) }, func(c *config.Dcp) any { return c.Checkpoint.AutoReset }},
	"healthCheck.interval":                   {func(c *config.Dcp, v any) { c.HealthCheck.Interval = ms(v) }, func(c *config.Dcp) any { return c.HealthCheck.Interval.Milliseconds() }},
	"healthCheck.timeout":                    {func(c *config.Dcp, v any) { c.HealthCheck.Timeout = ms(v) }, func(c *config.Dcp) any { return c.HealthCheck.Timeout.Milliseconds() }},
	"dcp.group.membership.rebalanceDelay":    {func(c *config.Dcp, v any) { c.Dcp.Group.Membership.RebalanceDelay = ms(v) }, func(c *config.Dcp) any { return c.Dcp.Group.Membership.RebalanceDelay.Milliseconds() }},
	"dcp.group.membership.totalMembers":      {func(c *config.Dcp, v any) { c.Dcp.Group.Membership.TotalMembers = toInt(v) }, func(c *config.Dcp) any { return c.Dcp.Group.Membership.TotalMembers }},
	"dcp.group.membership.memberNumber":      {func(c *config.Dcp, v any) { c.Dcp.Group.Membership.MemberNumber = toInt(v) }, func(c *config.Dcp) any { return c.Dcp.Group.Membership.MemberNumber }},
	"dcp.group.membership.type":              {func(c *config.Dcp, v any) { c.Dcp.Group.Membership.Type = toStr(v) }, func(c *config.Dcp) any { return c.Dcp.Group.Membership.Type }},
	"dcp.connectionTimeout":                  {func(c *config.Dcp, v any) { c.Dcp.ConnectionTimeout = ms(v) }, func(c *config.Dcp) any { return c.Dcp.ConnectionTimeout.Milliseconds() }},
	"connectionTimeout":                      {func(c *config.Dcp, v any) { c.ConnectionTimeout = ms(v) }, func(c *config.Dcp) any { return c.ConnectionTimeout.Milliseconds() }},
	"collectionNames": {func(c *config.Dcp, v any) { c.CollectionNames = strings.Split(toStr(v), ",") }, func(c *config.Dcp) any {
		return strings.Join(c.CollectionNames, ",")
	}},
	"scopeName":                {func(c *config.Dcp, v any) { c.ScopeName = toStr(v) }, func(c *config.Dcp) any { return c.ScopeName }},
	"connectionBufferSize":     {func(c *config.Dcp, v any) { c.ConnectionBufferSize = toInt(v) }, func(c *config.Dcp) any { return size(c.ConnectionBufferSize) }},
	"maxQueueSize":             {func(c *config.Dcp, v any) { c.MaxQueueSize = toInt(v) }, func(c *config.Dcp) any { return c.MaxQueueSize }},
	"metric.path":              {func(c *config.Dcp, v any) { c.Metric.Path = toStr(v) }, func(c *config.Dcp) any { return c.Metric.Path }},
	"api.port":                 {func(c *config.Dcp, v any) { c.API.Port = toInt(v) }, func(c *config.Dcp) any { return c.API.Port }},
	"leaderElection.type":      {func(c *config.Dcp, v any) { c.LeaderElection.Type = toStr(v) }, func(c *config.Dcp) any { return c.LeaderElection.Type }},
	"leaderElection.rpc.port":  {func(c *config.Dcp, v any) { c.LeaderElection.RPC.Port = toInt(v) }, func(c *config.Dcp) any { return c.LeaderElection.RPC.Port }},
	"dcp.bufferSize":           {func(c *config.Dcp, v any) { c.Dcp.BufferSize = toInt(v) }, func(c *config.Dcp) any { return size(c.Dcp.BufferSize) }},
	"dcp.connectionBufferSize": {func(c *config.Dcp, v any) { c.Dcp.ConnectionBufferSize = toInt(v) }, func(c *config.Dcp) any { return size(c.Dcp.ConnectionBufferSize) }},
	"dcp.maxQueueSize":         {func(c *config.Dcp, v any) { c.Dcp.MaxQueueSize = toInt(v) }, func(c *config.Dcp) any { return c.Dcp.MaxQueueSize }},
	"metadata.type":            {func(c *config.Dcp, v any) { c.Metadata.Type = toStr(v) }, func(c *config.Dcp) any { return c.Metadata.Type }},
	"logging.level":            {func(c *config.Dcp, v any) { c.Logging.Level = toStr(v) }, func(c *config.Dcp) any { return c.Logging.Level }},
	"bucketName":               {func(c *config.Dcp, v any) { c.BucketName = toStr(v) }, func(c *config.Dcp) any { return c.BucketName }},
	"username":                 {func(c *config.Dcp, v any) { c.Username = toStr(v) }, func(c *config.Dcp) any { return c.Username }},
	"password":                 {func(c *config.Dcp, v any) { c.Password = toStr(v) }, func(c *config.Dcp) any { return c.Password }},
	"rootCAPath":               {func(c *config.Dcp, v any) { c.RootCAPath = toStr(v) }, func(c *config.Dcp) any { return c.RootCAPath }},
	"dcp.group.name":           {func(c *config.Dcp, v any) { c.Dcp.Group.Name = toStr(v) }, func(c *config.Dcp) any { return c.Dcp.Group.Name }},
	"dcp.mode":                 {func(c *config.Dcp, v any) { c.Dcp.Mode = config.DcpMode(toStr(v)) }, func(c *config.Dcp) any { return string(c.Dcp.Mode) }},
}

func dump(c *config.Dcp) map[string]any {
	m := map[string]any{}
	for k, o := range opts {
		m[k] = o.get(c)
	}
	return m
}

func setEnv(k string, v any) {
	if n := toInt(v); n != 0 {
		os.Setenv(k, fmt.Sprint(n))
	} else {
		os.Unsetenv(k)
	}
}

// guarded runs f and reports a panic of the real code as an error string
func guarded(f func()) (msg string) {
	defer func() {
		if r := recover(); r != nil {
			msg = fmt.Sprint(r)
		}
	}()
	f()
	return ""
}

func cfgRow(in map[string]any) map[string]any {
	ch, _ := in["ch"].(map[string]any)
	vals, _ := in["cfg"].(map[string]any)
	env, _ := in["env"].(map[string]any)
	c := &config.Dcp{}
	for name, choice := range ch {
		o, ok := opts[name]
		if !ok {
			return map[string]any{"kind": "CFG", "err": "the harness does not know option " + name}
		}
		if toInt(choice) != 0 {
			o.set(c, vals[name])
		}
	}
	setEnv("GO_DCP__DCP_GROUP_MEMBERSHIP_MEMBERNUMBER", env["mn"])
	setEnv("GO_DCP__DCP_GROUP_MEMBERSHIP_TOTALMEMBERS", env["tm"])
	defer os.Unsetenv("GO_DCP__DCP_GROUP_MEMBERSHIP_MEMBERNUMBER")
	defer os.Unsetenv("GO_DCP__DCP_GROUP_MEMBERSHIP_TOTALMEMBERS")
	res := map[string]any{"kind": "CFG", "ch": ch, "env": env}
	keep := logger.Log
	logger.Log = nil // applyLogging only defaults the level while no logger exists (the state of a starting process)
	msg := guarded(func() { c.ApplyDefaults() })
	quiet()
	if msg != "" {
		logger.Log = keep
		res["err"] = msg
		return res
	}
	res["out1"] = dump(c)
	if msg := guarded(func() { c.ApplyDefaults() }); msg != "" {
		res["err"] = msg
		return res
	}
	res["out2"] = dump(c)
	return res
}

func getRow(in map[string]any) map[string]any {
	which := toStr(in["which"])
	main, _ := in["main"].(map[string]any)
	mp := map[string]string{}
	if m, ok := in["map"].(map[string]any); ok {
		for k, v := range m {
			mp[k] = toStr(v)
		}
	}
	c := &config.Dcp{Hosts: strings.Split(toStr(main["hosts"]), ","), Username: toStr(main["username"]), Password: toStr(main["password"]),
		BucketName: toStr(main["bucket"]), RootCAPath: toStr(main["rootCAPath"])}
	c.SecureConnection, _ = main["secureConnection"].(bool)
	res := map[string]any{"kind": "GET", "which": which, "main": main, "present": in["present"]}
	var out []any
	msg := guarded(func() {
		switch which {
		case "metadata":
			c.Metadata.Config = mp
			m := c.GetCouchbaseMetadata()
			out = []any{strings.Join(m.Hosts, ","), m.Username, m.Password, m.Bucket, m.Scope, m.Collection, m.MaxQueueSize,
				int(m.ConnectionBufferSize), m.ConnectionTimeout.Milliseconds(), m.SecureConnection, m.RootCAPath}
		case "membership":
			c.Dcp.Group.Membership.Config = mp
			m := c.GetCouchbaseMembership()
			out = []any{int(m.ExpirySeconds), m.HeartbeatInterval.Milliseconds(), m.HeartbeatToleranceDuration.Milliseconds(),
				m.MonitorInterval.Milliseconds(), m.Timeout.Milliseconds()}
		case "elector":
			c.LeaderElection.Config = mp
			m := c.GetKubernetesLeaderElector()
			out = []any{m.LeaseLockName, m.LeaseLockNamespace, m.LeaseDuration.Milliseconds(), m.RenewDeadline.Milliseconds(), m.RetryPeriod.Milliseconds()}
		}
	})
	if msg != "" {
		res["err"] = msg
	} else {
		res["out"] = out
	}
	return res
}

func unitRow(in map[string]any) map[string]any {
	res := map[string]any{"kind": "UNIT", "k": in["kind"], "ip": in["ip"], "frac": in["frac"], "unit": in["unit"], "s": in["s"]}
	s := toStr(in["s"])
	msg := guarded(func() {
		res["out"] = helpers.ResolveUnionIntOrStringValue(s)
		if toStr(in["kind"]) == "plain" {
			// a YAML integer arrives as an int (and a uint from code): both resolve to themselves
			res["outInt"] = helpers.ResolveUnionIntOrStringValue(toInt(in["ip"]))
			res["outUint"] = helpers.ResolveUnionIntOrStringValue(uint(toInt(in["ip"])))
		}
	})
	if msg != "" {
		res["err"] = msg
	}
	return res
}

func substRow(in map[string]any, dir string, n int) map[string]any {
	res := map[string]any{"kind": "SUBST", "raw": in["raw"], "set": in["set"], "want": in["want"]}
	for _, v := range []string{"VERIF_A", "VERIF_B"} {
		os.Unsetenv(v)
	}
	if l, ok := in["set"].([]any); ok {
		for _, v := range l {
			val := "alpha"
			if toStr(v) == "VERIF_B" {
				val = "b3"
			}
			os.Setenv(toStr(v), val)
		}
	}
	raw := toStr(in["raw"])
	path := filepath.Join(dir, fmt.Sprintf("cfg-%d.yml", n))
	yml := fmt.Sprintf("username: \"%s\"\nbucketName: 'pre %s post'\nhosts:\n  - \"%s\"\ndcp:\n  group:\n    name: \"%s\"\n", raw, raw, raw, raw)
	_ = os.WriteFile(path, []byte(yml), 0o600)
	defer os.Remove(path)
	msg := guarded(func() {
		c, err := dcp.VerifNewDcpConfig(path)
		if err != nil {
			panic(err)
		}
		h := ""
		if len(c.Hosts) > 0 {
			h = c.Hosts[0]
		}
		res["out"] = []any{c.Username, strings.TrimSuffix(strings.TrimPrefix(c.BucketName, "pre "), " post"), h, c.Dcp.Group.Name}
	})
	if msg != "" {
		res["err"] = msg
	}
	return res
}

// configTables: every line is `<TAG> <json>` as printed by TLC (CFG, GET, UNIT, SUBST)
func configTables(in, out string) {
	quiet()
	f, err := os.Open(in)
	if err != nil {
		fmt.Fprintln(os.Stderr, err)
		os.Exit(2)
	}
	defer f.Close()
	o, _ := os.Create(out)
	defer o.Close()
	w := bufio.NewWriterSize(o, 1<<20)
	defer w.Flush()
	dir, _ := os.MkdirTemp("", "verif-cfg")
	defer os.RemoveAll(dir)
	sc := bufio.NewScanner(f)
	sc.Buffer(make([]byte, 1<<20), 1<<26)
	n := 0
	for sc.Scan() {
		line := sc.Text()
		i := strings.IndexByte(line, ' ')
		if i < 0 {
			continue
		}
		var row map[string]any
		if json.Unmarshal([]byte(line[i+1:]), &row) != nil {
			continue
		}
		n++
		var res map[string]any
		switch line[:i] {
		case "CFG":
			res = cfgRow(row)
		case "GET":
			res = getRow(row)
		case "UNIT":
			res = unitRow(row)
		case "SUBST":
			res = substRow(row, dir, n)
		default:
			continue
		}
		b, _ := json.Marshal(res)
		w.Write(b)
		w.WriteByte('\n')
	}
}
