package main

import (
	"bufio"
	"encoding/json"
	"fmt"
	"os"
	"path/filepath"
	"strconv"
	"strings"
	"sync"
	"time"

	"github.com/Trendyol/go-dcp/config"
	"github.com/Trendyol/go-dcp/couchbase"
	"github.com/Trendyol/go-dcp/metadata"
	"github.com/Trendyol/go-dcp/models"
	"github.com/Trendyol/go-dcp/tracing"
	"github.com/couchbase/gocbcore/v10"

	"verifharness/simnode"
)

// ---- C02 / C08 / C14 at the wire: rows of StreamReq.tla and 64-bit fidelity rows executed by the real client ----

const unbounded = ^uint64(0)

func gocbVbUUID(v uint64) gocbcore.VbUUID { return gocbcore.VbUUID(v) }

func endOf(v int) uint64 {
	if v == -2 {
		return unbounded
	}
	return uint64(v)
}
func endBack(v uint64) int {
	if v == unbounded {
		return -2
	}
	return int(v)
}

type wireRig struct {
	node     *simnode.Node
	wire     *simnode.Wire
	cfg      *config.Dcp
	cl       couchbase.Client
	lastUUID uint64
}

func newWireRig() (*wireRig, error) {
	node := simnode.Start("b1", 4)
	w := simnode.NewWire(4)
	node.Handler = w.Handler()
	cfg := &config.Dcp{Hosts: []string{fmt.Sprintf("http://127.0.0.1:%d", node.HTTPPort())}, Username: "user", Password: "password", BucketName: "b1"}
	cfg.Dcp.Group.Name = "grp"
	cfg.ApplyDefaults()
	cfg.RollbackMitigation.Disabled = true
	cl := couchbase.NewClient(cfg)
	if err := cl.Connect(); err != nil {
		return nil, err
	}
	if err := cl.DcpConnect(true, false); err != nil {
		return nil, err
	}
	return &wireRig{node: node, wire: w, cfg: cfg, cl: cl}, nil
}

func (r *wireRig) observer(vb uint16) couchbase.Observer {
	return r.observerTo(vb, nil)
}

// observerTo: a real observer whose listener records the seqnos of the mutations it is handed
func (r *wireRig) observerTo(vb uint16, got *[]int) couchbase.Observer {
	var mu sync.Mutex
	return couchbase.NewObserver(r.cfg, vb, 0, func(a models.ListenerArgs) {
		if m, ok := a.Event.(models.InternalDcpMutation); ok && got != nil {
			mu.Lock()
			*got = append(*got, int(m.SeqNo))
			if m.Offset != nil {
				r.lastUUID = uint64(m.Offset.VbUUID) // the branch the offset of the delivered event names
			}
			mu.Unlock()
		}
	}, func(models.DcpStreamEndContext) {}, map[uint32]string{}, tracing.NewTracerComponent())
}

func (r *wireRig) sreq(in map[string]any) map[string]any {
	res := map[string]any{"kind": "SREQ", "prop": "C08"}
	for _, k := range []string{"log", "uuid", "seq", "ss", "se", "latest", "rb"} {
		res[k] = in[k]
	}
	var fo [][2]uint64
	for _, e := range in["log"].([]any) {
		p := e.([]any)
		fo = append(fo, [2]uint64{uint64(toInt(p[0])), uint64(toInt(p[1]))})
	}
	const vb = 1
	r.wire.Script(vb, fo, int64(toInt(in["rb"])))
	// right behind the answer that accepts the stream the node sends one snapshot with the events from the resume point up
	// to one past the position the client had reached: after a rollback everything at or below that position must be
	// filtered (the catch-up mark is armed before the first of them is dispatched), the one beyond it delivered
	f, start := toInt(in["seq"]), toInt(in["seq"])
	if rb := toInt(in["rb"]); rb >= 0 {
		start = rb
	}
	burst := []uint64{uint64(start), uint64(f + 1)}
	for q := start + 1; q <= f+1; q++ {
		burst = append(burst, uint64(q))
	}
	var got []int
	r.lastUUID = 0
	off := &models.Offset{SnapshotMarker: &models.SnapshotMarker{StartSeqNo: uint64(toInt(in["ss"])), EndSeqNo: uint64(toInt(in["se"]))},
		VbUUID: gocbVbUUID(uint64(toInt(in["uuid"]))), SeqNo: uint64(toInt(in["seq"])), LatestSeqNo: endOf(toInt(in["latest"]))}
	ob := r.observerTo(vb, &got)
	var err error
	msg := guarded(func() {
		r.wire.SetBurst(burst)
		err = r.cl.OpenStream(vb, map[uint32]string{}, off, ob)
	})
	if msg == "" && err != nil {
		msg = err.Error()
	}
	if msg != "" {
		res["err"] = msg
	}
	var reqs []any
	for _, q := range r.wire.Requests() {
		reqs = append(reqs, []any{int(q[0]), int(q[1]), endBack(q[2]), int(q[3]), int(q[4])})
	}
	res["reqs"] = reqs
	cu, armed := couchbase.VerifObserverCatchup(ob)
	res["catchup"] = -1
	if armed {
		res["catchup"] = int(cu)
	}
	// the events of the burst travel on the DCP connection right behind the answer: give the dispatcher a moment
	deadline := time.Now().Add(300 * time.Millisecond)
	for time.Now().Before(deadline) {
		if l := len(got); l > 0 && got[l-1] == f+1 {
			break
		}
		time.Sleep(time.Millisecond)
	}
	delivered := []any{}
	for _, q := range got {
		delivered = append(delivered, q)
	}
	res["delivered"] = delivered
	res["duuid"] = int(r.lastUUID) // vbUUID in the offset of the event delivered last
	_ = r.cl.CloseStream(vb)
	return res
}

func u(s any) uint64 { v, _ := strconv.ParseUint(toStr(s), 10, 64); return v }

// fid: in = {vb, group, uuid, seq, ss, se, end} with the numbers as decimal strings
func (r *wireRig) fid(in map[string]any, dir string) map[string]any {
	res := map[string]any{"kind": "FID", "prop": "C02"}
	vb := uint16(toInt(in["vb"]))
	group := toStr(in["group"])
	want := []any{in["uuid"], in["seq"], in["end"], in["ss"], in["se"]}
	res["want"], res["want4"] = want, []any{in["uuid"], in["seq"], in["ss"], in["se"]}
	res["wantkey"] = "_connector:cbgo:" + group + ":checkpoint:" + strconv.Itoa(int(vb))
	res["req"], res["cb"], res["file"], res["key"] = []any{}, []any{}, []any{}, ""
	msg := guarded(func() {
		// the stream request (the simulated bucket has four vBuckets; the metadata backends below use the row's own vBucket id)
		svb := vb % 4
		r.wire.Script(svb, [][2]uint64{{u(in["uuid"]), 0}}, -1)
		off := &models.Offset{SnapshotMarker: &models.SnapshotMarker{StartSeqNo: u(in["ss"]), EndSeqNo: u(in["se"])},
			VbUUID: gocbVbUUID(u(in["uuid"])), SeqNo: u(in["seq"]), LatestSeqNo: u(in["end"])}
		if err := r.cl.OpenStream(svb, map[uint32]string{}, off, r.observer(svb)); err != nil {
			panic(err)
		}
		if q := r.wire.Requests(); len(q) == 1 {
			var l []any
			for _, x := range q[0] {
				l = append(l, strconv.FormatUint(x, 10))
			}
			res["req"] = l
		}
		_ = r.cl.CloseStream(svb)
		// the metadata backends: the row's vBucket and a few neighbours are saved by ONE Save call (one goroutine per vBucket in
		// the Couchbase backend), each with its own seqno, and loaded back together
		vbs := []uint16{vb, vb + 1, vb + 2, vb + 10, vb + 100, (vb + 513) % 1024}
		mk := func(k int) *models.CheckpointDocument {
			return &models.CheckpointDocument{BucketUUID: "bkt", Checkpoint: &models.CheckpointDocumentCheckpoint{VbUUID: u(in["uuid"]), SeqNo: u(in["seq"]) - uint64(k),
				Snapshot: &models.CheckpointDocumentSnapshot{StartSeqNo: u(in["ss"]), EndSeqNo: u(in["se"])}}}
		}
		back := func(m metadata.Metadata) []any {
			state, dirty := map[uint16]*models.CheckpointDocument{}, map[uint16]bool{}
			for k, b := range vbs {
				state[b], dirty[b] = mk(k), true
			}
			if err := m.Save(state, dirty, "bkt"); err != nil {
				panic(err)
			}
			got, _, err := m.Load(vbs, "bkt")
			if err != nil {
				panic(err)
			}
			for k, b := range vbs {
				d, ok := got.Load(b)
				if !ok || d == nil || d.Checkpoint == nil || d.Checkpoint.Snapshot == nil {
					return []any{"vb " + strconv.Itoa(int(b)) + " missing"}
				}
				if want := mk(k).Checkpoint; d.Checkpoint.VbUUID != want.VbUUID || d.Checkpoint.SeqNo != want.SeqNo ||
					*d.Checkpoint.Snapshot != *want.Snapshot {
					return []any{fmt.Sprintf("vb %d came back as %+v / %+v", b, *d.Checkpoint, *d.Checkpoint.Snapshot)}
				}
			}
			c, _ := got.Load(vb)
			return []any{strconv.FormatUint(c.Checkpoint.VbUUID, 10), strconv.FormatUint(c.Checkpoint.SeqNo, 10),
				strconv.FormatUint(c.Checkpoint.Snapshot.StartSeqNo, 10), strconv.FormatUint(c.Checkpoint.Snapshot.EndSeqNo, 10)}
		}
		cfg := *r.cfg
		cfg.Dcp.Group.Name = group
		cfg.Metadata.Type = config.MetadataTypeCouchbase
		res["cb"] = back(couchbase.NewCBMetadata(r.cl, &cfg))
		fcfg := cfg
		fcfg.Metadata.Type = config.MetadataTypeFile
		fcfg.Metadata.Config = map[string]string{config.FileMetadataFileNameConfig: filepath.Join(dir, "ckpt-"+strconv.Itoa(int(vb))+".json")}
		res["file"] = back(metadata.NewFSMetadata(&fcfg))
		id, ok := couchbase.VerifCheckpointID(vb, group)
		if ok {
			res["key"] = id
		}
		// the keys the Couchbase backend really wrote: one document per saved vBucket under <prefix><group>:checkpoint:<vbID>
		r.wire.Store.With(func(d map[string]*simnode.Doc) {
			for _, b := range vbs {
				if _, found := d["_connector:cbgo:"+group+":checkpoint:"+strconv.Itoa(int(b))]; !found {
					res["key"] = "(no document for vBucket " + strconv.Itoa(int(b)) + " under its key)"
				}
			}
		})
	})
	if msg != "" {
		res["err"] = msg
	}
	return res
}

func wireTables(in, out string) {
	quiet()
	f, err := os.Open(in)
	if err != nil {
		fmt.Fprintln(os.Stderr, err)
		os.Exit(2)
	}
	defer f.Close()
	o, _ := os.Create(out)
	defer o.Close()
	w := bufio.NewWriterSize(o, 1<<20)
	defer w.Flush()
	dir, _ := os.MkdirTemp("", "verif-wire")
	defer os.RemoveAll(dir)
	rig, err := newWireRig()
	if err != nil {
		fmt.Fprintln(os.Stderr, "cannot connect to the simulated node:", err)
		os.Exit(2)
	}
	sc := bufio.NewScanner(f)
	sc.Buffer(make([]byte, 1<<20), 1<<26)
	for sc.Scan() {
		line := sc.Text()
		i := strings.IndexByte(line, ' ')
		if i < 0 {
			continue
		}
		var row map[string]any
		if json.Unmarshal([]byte(line[i+1:]), &row) != nil {
			continue
		}
		var res map[string]any
		switch line[:i] {
		case "SREQ":
			res = rig.sreq(row)
		case "FID":
			res = rig.fid(row, dir)
		default:
			continue
		}
		b, _ := json.Marshal(res)
		w.Write(b)
		w.WriteByte('\n')
	}
}
