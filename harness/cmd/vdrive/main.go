// vdrive executes TLC-generated schedules on the real go-dcp code.
//
//	vdrive -spec core -in schedules.ndjson -out trace.ndjson [-isolate]
//
// Input: one schedule per line ({"id":..,"cfg":{..},"steps":[{"l":..,"evs":..,"post":..}]}).
// Output: one line per executed step with the events the real code emitted, its projected state and
// the first difference from the specification's prediction (conformance), then a summary line.
// With -isolate every schedule runs in a child process, so that a panic on a goroutine of the library
// (fail-stop is a behaviour the properties talk about) ends that run only: the parent records the
// events seen so far plus {"ev":"Died"}.
package main

import (
	"bufio"
	"bytes"
	"encoding/json"
	"flag"
	"fmt"
	"os"
	"os/exec"
	"strings"
	"sync"

	"verifharness/drivers"
	"verifharness/sched"
)

func runOne(spec string, sch *drivers.Schedule) []drivers.TraceLine {
	switch spec {
	case "core":
		return drivers.NewCoreRun(sch).Run()
	case "health":
		return drivers.NewHealthRun(sch).Run()
	case "async":
		return drivers.NewAsyncRun(sch).Run()
	case "wire":
		return drivers.NewWireRun(sch).Run()
	case "membercb":
		return drivers.NewMemberCBRun(sch).Run()
	case "memberdyn":
		return drivers.NewMemberDynRun(sch).Run()
	}
	fmt.Fprintln(os.Stderr, "unknown spec", spec)
	os.Exit(2)
	return nil
}

// child: one schedule on stdin, protocol lines on stdout
func child(spec string) {
	rd := bufio.NewReaderSize(os.Stdin, 1<<20)
	var buf bytes.Buffer
	_, _ = buf.ReadFrom(rd)
	var sch drivers.Schedule
	if err := json.Unmarshal(buf.Bytes(), &sch); err != nil {
		fmt.Fprintln(os.Stderr, "bad schedule:", err)
		os.Exit(2)
	}
	var mu sync.Mutex
	out := bufio.NewWriter(os.Stdout)
	put := func(v any) {
		b, _ := json.Marshal(v)
		mu.Lock()
		out.Write(b)
		out.WriteByte('\n')
		out.Flush()
		mu.Unlock()
	}
	sched.Live = func(e sched.Ev) { put(map[string]any{"live": e}) }
	drivers.OnStep = func(begin bool, i int, tl *drivers.TraceLine) {
		if begin {
			put(map[string]any{"begin": i})
		} else {
			put(map[string]any{"line": tl})
		}
	}
	runOne(spec, &sch)
	put(map[string]any{"end": true})
}

func isolated(self, spec string, sch *drivers.Schedule) []drivers.TraceLine {
	b, _ := json.Marshal(sch)
	cmd := exec.Command(self, "-spec", spec, "-child")
	cmd.Stdin = bytes.NewReader(b)
	var stderr bytes.Buffer
	cmd.Stderr = &stderr
	so, _ := cmd.StdoutPipe()
	if err := cmd.Start(); err != nil {
		fmt.Fprintln(os.Stderr, err)
		os.Exit(2)
	}
	var lines []drivers.TraceLine
	var live []drivers.Ev
	begun, ended := 0, false
	sc := bufio.NewScanner(so)
	sc.Buffer(make([]byte, 1<<20), 1<<28)
	for sc.Scan() {
		var m struct {
			Begin int                `json:"begin"`
			Live  drivers.Ev         `json:"live"`
			Line  *drivers.TraceLine `json:"line"`
			End   bool               `json:"end"`
		}
		if json.Unmarshal(sc.Bytes(), &m) != nil {
			continue
		}
		switch {
		case m.Begin > 0:
			begun, live = m.Begin, nil
		case m.Live != nil:
			live = append(live, m.Live)
		case m.Line != nil:
			lines = append(lines, *m.Line)
			live = nil
			begun = 0
		case m.End:
			ended = true
		}
	}
	_ = cmd.Wait()
	if !ended {
		// the process died inside step `begun`
		msg := ""
		for _, l := range strings.Split(stderr.String(), "\n") {
			if strings.HasPrefix(l, "panic:") || strings.HasPrefix(l, "fatal error:") {
				msg = l
				break
			}
		}
		i := begun
		if i == 0 {
			i = len(lines) + 1
		}
		if i >= 1 && i <= len(sch.Steps) {
			tl := drivers.TraceLine{Run: sch.ID, I: i, L: sch.Steps[i-1].L, Post: drivers.Ev{"up": false}}
			tl.Evs = append(live, drivers.Ev{"ev": "Died", "msg": msg})
			tl.Diff = drivers.DiffStep(sch.Steps[i-1], tl)
			lines = append(lines, tl)
			for k := i + 1; k <= len(sch.Steps); k++ {
				lines = append(lines, drivers.TraceLine{Run: sch.ID, I: k, L: sch.Steps[k-1].L, Skipped: "process is down",
					Post: drivers.Ev{"up": false}})
			}
		}
	}
	return lines
}

func main() {
	spec := flag.String("spec", "core", "which specification the schedules belong to")
	in := flag.String("in", "", "schedules (ndjson)")
	out := flag.String("out", "", "trace (ndjson)")
	iso := flag.Bool("isolate", false, "one child process per schedule")
	isChild := flag.Bool("child", false, "internal")
	flag.Parse()
	if *isChild {
		child(*spec)
		return
	}
	self, _ := os.Executable()
	f, err := os.Open(*in)
	if err != nil {
		fmt.Fprintln(os.Stderr, err)
		os.Exit(2)
	}
	defer f.Close()
	o, err := os.Create(*out)
	if err != nil {
		fmt.Fprintln(os.Stderr, err)
		os.Exit(2)
	}
	defer o.Close()
	w := bufio.NewWriterSize(o, 1<<20)
	defer w.Flush()
	enc := json.NewEncoder(w)
	sc := bufio.NewScanner(f)
	sc.Buffer(make([]byte, 1<<20), 1<<28)
	runs, steps, diverged, skipped := 0, 0, 0, 0
	for sc.Scan() {
		var sch drivers.Schedule
		if err := json.Unmarshal(sc.Bytes(), &sch); err != nil {
			fmt.Fprintln(os.Stderr, "bad schedule:", err)
			os.Exit(2)
		}
		var lines []drivers.TraceLine
		if *iso {
			lines = isolated(self, *spec, &sch)
		} else {
			lines = runOne(*spec, &sch)
		}
		runs++
		div := false
		for _, l := range lines {
			steps++
			if l.Diff != "" {
				div = true
			}
			if l.Skipped != "" {
				skipped++
			}
			_ = enc.Encode(l)
		}
		if div {
			diverged++
		}
		w.Flush()
	}
	_ = enc.Encode(map[string]any{"summary": true, "runs": runs, "steps": steps, "diverged_runs": diverged, "skipped_steps": skipped})
}
