// vdrive executes TLC-generated schedules on the real go-dcp code.
//
//	vdrive -spec core -in schedules.ndjson -out trace.ndjson
//
// Input: one schedule per line ({"id":..,"cfg":{..},"steps":[{"l":..,"evs":..,"post":..}]}).
// Output: one line per executed step with the events the real code emitted, its projected state and
// the first difference from the specification's prediction (conformance), then a summary line.
package main

import (
	"bufio"
	"encoding/json"
	"flag"
	"fmt"
	"os"

	"verifharness/drivers"
)

func main() {
	spec := flag.String("spec", "core", "which specification the schedules belong to")
	in := flag.String("in", "", "schedules (ndjson)")
	out := flag.String("out", "", "trace (ndjson)")
	flag.Parse()
	f, err := os.Open(*in)
	if err != nil {
		fmt.Fprintln(os.Stderr, err)
		os.Exit(2)
	}
	defer f.Close()
	o, err := os.Create(*out)
	if err != nil {
		fmt.Fprintln(os.Stderr, err)
		os.Exit(2)
	}
	defer o.Close()
	w := bufio.NewWriterSize(o, 1<<20)
	defer w.Flush()
	enc := json.NewEncoder(w)
	sc := bufio.NewScanner(f)
	sc.Buffer(make([]byte, 1<<20), 1<<28)
	runs, steps, diverged, skipped := 0, 0, 0, 0
	for sc.Scan() {
		var sch drivers.Schedule
		if err := json.Unmarshal(sc.Bytes(), &sch); err != nil {
			fmt.Fprintln(os.Stderr, "bad schedule:", err)
			os.Exit(2)
		}
		var lines []drivers.TraceLine
		switch *spec {
		case "core":
			lines = drivers.NewCoreRun(&sch).Run()
		default:
			fmt.Fprintln(os.Stderr, "unknown spec", *spec)
			os.Exit(2)
		}
		runs++
		div := false
		for _, l := range lines {
			steps++
			if l.Diff != "" {
				div = true
			}
			if l.Skipped != "" {
				skipped++
			}
			_ = enc.Encode(l)
		}
		if div {
			diverged++
		}
		w.Flush()
	}
	_ = enc.Encode(map[string]any{"summary": true, "runs": runs, "steps": steps, "diverged_runs": diverged, "skipped_steps": skipped})
}
