// Package sched is the gate scheduler of the verification harness.
//
// Every blocking point the rigs control (fake client / metadata / consumer
// methods, vhook points inside go-dcp) calls At: the calling goroutine parks
// under a thread name until the driver releases it with a value. Driver
// threads are started with Go and are known by goroutine id; library
// goroutines are named after the gate they arrive at.
package sched

import (
	"bytes"
	"fmt"
	"runtime"
	"sort"
	"strconv"
	"sync"
	"time"
)

type Ev = map[string]any

type parked struct {
	gate    string
	args    any
	release chan any
}

type Sched struct {
	mu      sync.Mutex
	cond    *sync.Cond
	threads map[int64]string   // goroutine id -> driver thread name
	parked  map[string]*parked // thread name -> gate it waits at
	done    map[string]bool    // driver threads whose body returned
	died    map[string]string  // driver threads that panicked (recovered) -> message
	auto    map[string]func(args any) any
	evs     []Ev
	version int
	dead    bool // after Kill: every gate blocks for ever, no events recorded
}

// Live, if set, sees every event the moment it is recorded (used by isolated driver children, whose
// process may die before the step's events are drained).
var Live func(Ev)

func New() *Sched {
	s := &Sched{
		threads: map[int64]string{}, parked: map[string]*parked{}, done: map[string]bool{},
		died: map[string]string{}, auto: map[string]func(any) any{},
	}
	s.cond = sync.NewCond(&s.mu)
	return s
}

func goid() int64 {
	var buf [64]byte
	n := runtime.Stack(buf[:], false)
	b := buf[:n]
	b = b[len("goroutine "):]
	i := bytes.IndexByte(b, ' ')
	id, _ := strconv.ParseInt(string(b[:i]), 10, 64)
	return id
}

// Auto makes a gate pass-through: f computes the release value.
func (s *Sched) Auto(gate string, f func(args any) any) {
	s.mu.Lock()
	defer s.mu.Unlock()
	if f == nil {
		delete(s.auto, gate)
	} else {
		s.auto[gate] = f
	}
}

// Thread returns the driver-thread name of the calling goroutine ("" for library goroutines).
func (s *Sched) Thread() string {
	id := goid()
	s.mu.Lock()
	defer s.mu.Unlock()
	return s.threads[id]
}

// Emit records an observable event.
func (s *Sched) Emit(e Ev) {
	s.mu.Lock()
	if !s.dead {
		if Live != nil {
			Live(e)
		}
		s.evs = append(s.evs, e)
		s.version++
		s.cond.Broadcast()
	}
	s.mu.Unlock()
}

// Drain returns and clears the recorded events.
func (s *Sched) Drain() []Ev {
	s.mu.Lock()
	defer s.mu.Unlock()
	r := s.evs
	s.evs = nil
	return r
}

// At parks the calling goroutine at gate until released; key distinguishes library goroutines.
func (s *Sched) At(gate string, key string, args any) any {
	id := goid()
	s.mu.Lock()
	if s.dead {
		s.mu.Unlock()
		select {} // the "process" is gone
	}
	if f, ok := s.auto[gate]; ok {
		s.mu.Unlock()
		return f(args)
	}
	name := s.threads[id]
	if name == "" {
		name = "lib:" + gate
		if key != "" {
			name += ":" + key
		}
	}
	p := &parked{gate: gate, args: args, release: make(chan any, 1)}
	if _, dup := s.parked[name]; dup {
		// two library goroutines at the same gate+key: disambiguate
		for i := 2; ; i++ {
			n2 := fmt.Sprintf("%s#%d", name, i)
			if _, d := s.parked[n2]; !d {
				name = n2
				break
			}
		}
	}
	s.parked[name] = p
	s.version++
	s.cond.Broadcast()
	s.mu.Unlock()
	v := <-p.release
	if _, isDead := v.(deadT); isDead {
		select {}
	}
	return v
}

type deadT struct{}

// Go starts a driver thread.
func (s *Sched) Go(name string, f func()) {
	started := make(chan struct{})
	go func() {
		id := goid()
		s.mu.Lock()
		s.threads[id] = name
		delete(s.done, name)
		s.mu.Unlock()
		close(started)
		defer func() {
			r := recover()
			s.mu.Lock()
			delete(s.threads, id)
			if r != nil {
				s.died[name] = fmt.Sprint(r)
			}
			s.done[name] = true
			s.version++
			s.cond.Broadcast()
			s.mu.Unlock()
		}()
		f()
	}()
	<-started
}

// Release lets the thread parked under name continue with value v.
func (s *Sched) Release(name string, v any) bool {
	s.mu.Lock()
	p, ok := s.parked[name]
	if ok {
		delete(s.parked, name)
		s.version++
	}
	s.mu.Unlock()
	if ok {
		p.release <- v
	}
	return ok
}

// Parked returns thread -> gate for every parked thread.
func (s *Sched) Parked() map[string]string {
	s.mu.Lock()
	defer s.mu.Unlock()
	r := map[string]string{}
	for k, p := range s.parked {
		r[k] = p.gate
	}
	return r
}

func (s *Sched) ParkedArgs(name string) (string, any, bool) {
	s.mu.Lock()
	defer s.mu.Unlock()
	p, ok := s.parked[name]
	if !ok {
		return "", nil, false
	}
	return p.gate, p.args, true
}

func (s *Sched) IsDone(name string) bool {
	s.mu.Lock()
	defer s.mu.Unlock()
	return s.done[name]
}

func (s *Sched) Died(name string) (string, bool) {
	s.mu.Lock()
	defer s.mu.Unlock()
	m, ok := s.died[name]
	return m, ok
}

// AnyDied reports whether some driver thread ended in a panic. Must not be called with the lock held... it is
// called from WaitUntil predicates, which run under the lock, hence the lock-free read of the map length.
func (s *Sched) AnyDied() bool { return len(s.died) > 0 }

// State is a printable summary: parked gates and finished threads.
func (s *Sched) State() (parkedAt map[string]string, done []string) {
	s.mu.Lock()
	defer s.mu.Unlock()
	parkedAt = map[string]string{}
	for k, p := range s.parked {
		parkedAt[k] = p.gate
	}
	for k, v := range s.done {
		if v {
			done = append(done, k)
		}
	}
	sort.Strings(done)
	return
}

// WaitUntil blocks until pred holds (evaluated under the lock on a snapshot) or the timeout expires.
func (s *Sched) WaitUntil(timeout time.Duration, pred func(parked map[string]string, done map[string]bool) bool) bool {
	return s.WaitCond(timeout, func(p map[string]string, d map[string]bool, _ int) bool { return pred(p, d) })
}

// WaitCond is WaitUntil with the number of recorded (undrained) events as a third input.
func (s *Sched) WaitCond(timeout time.Duration, pred func(parked map[string]string, done map[string]bool, nev int) bool) bool {
	deadline := time.Now().Add(timeout)
	timer := time.AfterFunc(timeout, func() { s.mu.Lock(); s.cond.Broadcast(); s.mu.Unlock() })
	defer timer.Stop()
	s.mu.Lock()
	defer s.mu.Unlock()
	for {
		pk := map[string]string{}
		for k, p := range s.parked {
			pk[k] = p.gate
		}
		if pred(pk, s.done, len(s.evs)) {
			return true
		}
		if !time.Now().Before(deadline) {
			return false
		}
		s.cond.Wait()
	}
}

// Settle waits until nothing (arrival, finish, event) changed for d, at most max.
func (s *Sched) Settle(d, max time.Duration) {
	end := time.Now().Add(max)
	s.mu.Lock()
	v := s.version
	s.mu.Unlock()
	for time.Now().Before(end) {
		time.Sleep(d)
		s.mu.Lock()
		v2 := s.version
		s.mu.Unlock()
		if v2 == v {
			return
		}
		v = v2
	}
}

// Kill simulates the death of the process: nothing parked is ever released, nothing more is recorded.
func (s *Sched) Kill() {
	s.mu.Lock()
	s.dead = true
	ps := s.parked
	s.parked = map[string]*parked{}
	s.mu.Unlock()
	for _, p := range ps {
		p.release <- deadT{}
	}
}
