// Package drivers executes schedules produced by TLC (sequences of labelled steps of the
// specification) on the real go-dcp code and records, per step, the observable events the real code
// emitted and the projection of its state, next to what the specification predicted.
package drivers

import (
	"encoding/json"
	"fmt"
	"os"
	"sort"
	"strconv"
	"strings"
	"time"

	"github.com/Trendyol/go-dcp/helpers"
	"github.com/Trendyol/go-dcp/membership"
	"github.com/Trendyol/go-dcp/models"
	"github.com/couchbase/gocbcore/v10"

	"verifharness/riga"
	"verifharness/sched"
)

type Ev = sched.Ev

// Step is one entry of a schedule: the label and the specification's predictions.
type Step struct {
	L    map[string]any `json:"l"`
	Evs  []any          `json:"evs"`
	Post map[string]any `json:"post"`
}

// Schedule is one behaviour of the specification.
type Schedule struct {
	ID    int            `json:"id"`
	Cfg   map[string]any `json:"cfg"`
	Steps []Step         `json:"steps"`
}

// TraceLine is what the driver records for one executed step.
type TraceLine struct {
	Run     int            `json:"run"`
	I       int            `json:"i"`
	L       map[string]any `json:"l"`
	Evs     []Ev           `json:"evs"`
	Post    Ev             `json:"post,omitempty"`
	Skipped string         `json:"skipped,omitempty"` // the step could not be executed on the real code
	Diff    string         `json:"diff,omitempty"`    // first difference from the specification's prediction
}

const stepTimeout = 1500 * time.Millisecond

func num(v any) int {
	switch x := v.(type) {
	case float64:
		return int(x)
	case int:
		return x
	case int64:
		return int(x)
	case json.Number:
		i, _ := x.Int64()
		return int(i)
	}
	return 0
}

func str(v any) string { s, _ := v.(string); return s }

// Canon renders any JSON-like value canonically (sorted keys, integers without exponent).
func Canon(v any) string {
	b, _ := json.Marshal(normalize(v))
	return string(b)
}

func normalize(v any) any {
	switch x := v.(type) {
	case map[string]any:
		m := map[string]any{}
		for k, e := range x {
			m[k] = normalize(e)
		}
		return m
	case []any:
		l := make([]any, len(x))
		for i, e := range x {
			l[i] = normalize(e)
		}
		return l
	case []Ev:
		l := make([]any, len(x))
		for i, e := range x {
			l[i] = normalize(e)
		}
		return l
	case []int:
		l := make([]any, len(x))
		for i, e := range x {
			l[i] = int64(e)
		}
		return l
	case []string:
		l := make([]any, len(x))
		for i, e := range x {
			l[i] = e
		}
		return l
	case float64:
		return int64(x)
	case int:
		return int64(x)
	case uint64:
		return int64(x)
	}
	return v
}

// wire event of the specification -> call on the real observer
type WireEv struct {
	K   string `json:"k"`
	Q   int    `json:"q"`
	S   int    `json:"s"`
	E   int    `json:"e"`
	Key string `json:"key"`
	Old bool   `json:"old"`
}

// CoreRun executes one schedule of Core.tla.
type CoreRun struct {
	sch      *Schedule
	w        *riga.World
	r        *riga.Rig
	opt      riga.Options
	markerV2 bool       // snapshot markers carry the version-2 fields (max visible / high completed seqno)
	wire     [][]WireEv // per Go vb: what the server still has to send on the current stream (resends)
	slog     [][]WireEv // per Go vb: the server's history
	fo       []uint64
	skip     time.Time
	lines    []TraceLine
	up       bool
	diverged bool
	// what the simulated server knows about each vBucket's current stream (to keep the environment well-formed once a run has
	// left the specification): is it up, and the snapshot it announced last on it
	live     map[int]bool
	sentSnap map[int][2]int
	notified bool
}

func wireFrom(h []WireEv, q int) []WireEv {
	var out []WireEv
	var pending *WireEv
	hi := 0
	for i := range h {
		if h[i].Q > hi {
			hi = h[i].Q
		}
	}
	for i := range h {
		x := h[i]
		if x.K == "mark" {
			pending = &h[i]
			continue
		}
		if x.Q <= q {
			continue
		}
		if pending != nil {
			out = append(out, *pending)
			pending = nil
		}
		out = append(out, x)
	}
	if pending != nil && pending.E > hi {
		out = append(out, *pending)
	}
	return out
}

func truncLog(h []WireEv, r int) []WireEv {
	var out []WireEv
	for _, x := range h {
		if x.K == "mark" {
			if x.S <= r {
				if x.E > r {
					x.E = r
				}
				out = append(out, x)
			}
		} else if x.Q <= r {
			out = append(out, x)
		}
	}
	return out
}

func NewCoreRun(sch *Schedule) *CoreRun {
	c := &CoreRun{sch: sch}
	nvb := num(sch.Cfg["NVB"])
	c.w = riga.NewWorld(nvb)
	hb, _ := json.Marshal(sch.Cfg["InitLog"])
	_ = json.Unmarshal(hb, &c.slog)
	for len(c.slog) < nvb {
		c.slog = append(c.slog, nil)
	}
	for _, f := range sch.Cfg["FoUuid"].([]any) {
		c.fo = append(c.fo, uint64(num(f)))
	}
	for vb := 0; vb < nvb; vb++ {
		c.w.FoLog[vb] = []gocbcore.FailoverEntry{{VbUUID: gocbcore.VbUUID(c.fo[vb]), SeqNo: 0}}
	}
	c.setHigh()
	c.opt = riga.Options{AutoReset: str(sch.Cfg["AutoReset"])}
	if b, _ := sch.Cfg["Finite"].(bool); b {
		c.opt.Finite = true
	}
	if b, _ := sch.Cfg["AutoCkpt"].(bool); b {
		c.opt.CheckpointAuto = true
	}
	if b, _ := sch.Cfg["ReadOnly"].(bool); b {
		c.opt.ReadOnly = true
	}
	if b, _ := sch.Cfg["HoldCb"].(bool); b {
		c.opt.HoldCb = true
	}
	if b, _ := sch.Cfg["MarkerV2"].(bool); b {
		c.markerV2 = true // (a rig option: snapshot markers carry the version-2 fields)
	}
	if m, _ := sch.Cfg["MetaCollection"].(string); m != "" {
		c.opt.MetaCollection = m // (a rig option: the connector's checkpoints configured into a collection of their own)
	}
	if b, _ := sch.Cfg["HookScrapes"].(bool); b {
		c.opt.HookScrapes = true
	}
	if b, _ := sch.Cfg["RmReal"].(bool); b {
		c.opt.RmReal = true
	}
	if i0, ok := sch.Cfg["Info0"].([]any); ok && len(i0) == 2 {
		c.opt.Member, c.opt.Total = num(i0[0]), num(i0[1])
	}
	// events flagged "old" carry a CAS before skipUntil
	c.skip = time.Unix(skipSecond, 500000000)
	c.opt.SkipUntil = &c.skip
	c.wire = make([][]WireEv, nvb)
	c.live, c.sentSnap = map[int]bool{}, map[int][2]int{}
	return c
}

func (c *CoreRun) setHigh() {
	for vb := range c.slog {
		hi := 0
		for _, x := range c.slog[vb] {
			if x.Q > hi {
				hi = x.Q
			}
		}
		c.w.SetHigh(vb, uint64(hi))
		chi := 0
		for _, x := range c.slog[vb] {
			if (x.K == "mut" || x.K == "del" || x.K == "exp") && x.Q > chi {
				chi = x.Q
			}
		}
		c.w.SetCollHigh(vb, uint64(chi))
	}
}

// skipUntil is half a second into second T; an "old" event carries the last CAS of second T (its event time, which has
// whole seconds only, is T: before skipUntil), any other event the first CAS of second T+1: both classes sit at the boundary.
const skipSecond = 1700000000

func (c *CoreRun) cas(old bool) uint64 {
	if old {
		return uint64(skipSecond+1)*1000000000 - 1
	}
	return uint64(skipSecond+1) * 1000000000
}

func (c *CoreRun) push(vb int, x WireEv) {
	ob := c.r.Client.Observer(uint16(vb))
	key := []byte(riga.KeyOfClass[x.Key])
	switch x.K {
	case "mark":
		mk := models.DcpSnapshotMarker{VbID: uint16(vb), StartSeqNo: uint64(x.S), EndSeqNo: uint64(x.E)}
		if c.markerV2 {
			// a version-2 marker: the fields the library has no use for are filled in (a snapshot whose tail is not yet visible)
			mk.MaxVisibleSeqNo, mk.HighCompletedSeqNo = uint64(x.S), uint64(x.S)
		}
		ob.SnapshotMarker(mk)
	case "mut":
		ob.Mutation(gocbcore.DcpMutation{VbID: uint16(vb), SeqNo: uint64(x.Q), Key: key, Cas: c.cas(x.Old), Value: []byte("v")})
	case "del":
		ob.Deletion(gocbcore.DcpDeletion{VbID: uint16(vb), SeqNo: uint64(x.Q), Key: key, Cas: c.cas(x.Old)})
	case "exp":
		ob.Expiration(gocbcore.DcpExpiration{VbID: uint16(vb), SeqNo: uint64(x.Q), Key: key, Cas: c.cas(x.Old)})
	case "sys":
		ob.CreateCollection(gocbcore.DcpCollectionCreation{VbID: uint16(vb), SeqNo: uint64(x.Q), Key: []byte("c")})
	case "adv":
		ob.SeqNoAdvanced(gocbcore.DcpSeqNoAdvanced{VbID: uint16(vb), SeqNo: uint64(x.Q)})
	}
}

var endErr = map[string]error{
	"closed": gocbcore.ErrDCPStreamClosed, "socket": gocbcore.ErrSocketClosed, "backfill": gocbcore.ErrDCPBackfillFailed,
	"statechanged": gocbcore.ErrDCPStreamStateChanged, "tooslow": gocbcore.ErrDCPStreamTooSlow,
	"disconnected": gocbcore.ErrDCPStreamDisconnected, "filterempty": gocbcore.ErrDCPStreamFilterEmpty, "ok": nil,
}

func wireEvJSON(x WireEv) Ev {
	return Ev{"k": x.K, "q": x.Q, "s": x.S, "e": x.E, "key": x.Key, "old": x.Old}
}

func parkedList(p map[string]string) []string {
	l := []string{}
	for th, g := range p {
		if len(th) > 4 && th[:4] == "lib:" {
			l = append(l, th)
		} else {
			l = append(l, th+"@"+g)
		}
	}
	sort.Strings(l)
	return l
}

// await waits until the threads are parked where the specification predicts (conformance is checked
// afterwards); once a run has diverged, or without a prediction, it waits for the rig to settle.
func (c *CoreRun) await(st *Step) {
	if c.r == nil {
		return
	}
	if st.Post != nil && !c.diverged {
		if up, _ := st.Post["up"].(bool); !up {
			if str(st.L["a"]) != "Crash" {
				// the specification predicts a fail-stop: wait for the panic to surface on a driver thread (a panic on a
				// goroutine of the library ends this process instead)
				c.r.S.WaitUntil(stepTimeout, func(p map[string]string, d map[string]bool) bool { return c.r.S.AnyDied() })
			}
			c.r.S.Settle(2*time.Millisecond, 100*time.Millisecond)
			return
		}
		want := fmt.Sprint(sortedStrs(st.Post["parked"]))
		wantEv := 0
		for _, e := range st.Evs {
			if m, ok := e.(map[string]any); ok && m["ev"] != "State" && m["ev"] != "Stopped" {
				wantEv++
			}
		}
		if c.r.S.WaitCond(stepTimeout, func(p map[string]string, d map[string]bool, nev int) bool {
			return nev >= wantEv && fmt.Sprint(parkedList(p)) == want
		}) {
			// a thread that parks nowhere after its last event (the end of Open, the close of the stop channel) may
			// still be a few statements away from the state the specification predicts
			for dl := time.Now().Add(stepTimeout / 4); time.Now().Before(dl); {
				pp := c.r.Post()
				ok := true
				for _, k := range []string{"open", "active", "rebalances", "stopped", "flag", "thr"} {
					if w, has := st.Post[k]; has && Canon(w) != Canon(pp[k]) {
						ok = false
					}
				}
				if ok {
					break
				}
				time.Sleep(100 * time.Microsecond)
			}
			return
		}
		c.diverged = true
		return
	}
	c.r.S.Settle(5*time.Millisecond, 300*time.Millisecond)
}

func (c *CoreRun) parkedLike(prefix string) string {
	best := ""
	for th := range c.r.S.Parked() {
		if len(th) >= len(prefix) && th[:len(prefix)] == prefix {
			if best == "" || th < best {
				best = th
			}
		}
	}
	return best
}

// exec runs one labelled step; returns "" or the reason it could not be executed.
func (c *CoreRun) exec(l map[string]any) string {
	a := str(l["a"])
	if a == "Flush" {
		if c.up {
			return "process is up"
		}
		c.slog[num(l["vb"])-1] = nil
		return ""
	}
	if a != "Boot" && (!c.up || c.r == nil) {
		return "process is down"
	}
	var rel any
	if ok, has := l["ok"].(bool); has && !ok {
		rel = riga.ErrInjected
	}
	switch a {
	case "Boot":
		if c.up {
			return "process is up"
		}
		c.setHigh()
		c.r = riga.Boot(c.w, c.opt)
		c.up = true
		c.diverged = false
		c.live, c.sentSnap, c.notified = map[int]bool{}, map[int][2]int{}, false
		for vb := range c.wire {
			c.wire[vb] = nil
		}
		c.r.S.Emit(Ev{"ev": "Boot", "auto": c.opt.CheckpointAuto, "finite": c.opt.Finite, "member": c.r.Opt.Member, "total": c.r.Opt.Total, "readonly": c.opt.ReadOnly})
		r := c.r
		r.S.Go("main", func() {
			r.Dcp.Start()
			r.S.Emit(Ev{"ev": "CloseReturn"})
		})
	case "LoadRet", "SeqNosRet", "SeqNosRetMiss", "FoLogRet":
		gate := map[string]string{"LoadRet": "md.Load", "SeqNosRet": "GetVBucketSeqNos", "SeqNosRetMiss": "GetVBucketSeqNos", "FoLogRet": "GetFailOverLogs"}[a]
		th := "main"
		if c.r.S.Parked()[th] != gate {
			th = c.parkedLike("lib:" + gate)
			if th == "" {
				return "nobody is at " + gate
			}
		}
		if a == "SeqNosRet" || a == "SeqNosRetMiss" {
			c.setHigh()
		}
		if a == "SeqNosRetMiss" {
			rel = riga.MissingVb(num(l["vb"]) - 1) // the answer has no entry for this vBucket
		}
		if part, _ := l["part"].(bool); part && a == "LoadRet" {
			rel = "partial"
		}
		c.r.S.Release(th, rel)
	case "OpenRet", "ReopenRet":
		vb := num(l["vb"])
		th := "lib:OpenStream:" + strconv.Itoa(vb)
		res := riga.OpenResult{Uuid: c.fo[vb-1]}
		q := 0
		if st := c.r.Stream(); st != nil {
			if off, _, _ := st.GetOffsets(); off != nil {
				if o, ok := off.Load(uint16(vb - 1)); ok {
					q = int(o.SeqNo)
				}
			}
		}
		from := q
		switch str(l["res"]) {
		case "err":
			res.Err = riga.ErrInjected
		case "rb":
			res.Rollback, res.F = true, uint64(q)
			from = num(l["r"])
			if a == "ReopenRet" {
				// the vBucket failed over: what the old branch had beyond r is gone (Trunc in Core.tla)
				c.slog[vb-1] = truncLog(c.slog[vb-1], from)
			}
		}
		if _, _, ok := c.r.S.ParkedArgs(th); !ok {
			return th + " is not parked"
		}
		c.wire[vb-1] = wireFrom(c.slog[vb-1], from)
		c.live[vb-1] = res.Err == nil
		delete(c.sentSnap, vb-1)
		c.r.S.Release(th, res)
	case "Push":
		vb := num(l["vb"]) - 1
		if c.r.Client.Observer(uint16(vb)) == nil {
			return "no stream"
		}
		var x WireEv
		xb, _ := json.Marshal(l["x"])
		_ = json.Unmarshal(xb, &x)
		if len(c.wire[vb]) > 0 {
			if c.wire[vb][0] != x {
				return "not the event the server would resend"
			}
			c.wire[vb] = c.wire[vb][1:]
		} else {
			c.slog[vb] = append(c.slog[vb], x)
		}
		switch x.K {
		case "mark":
			c.sentSnap[vb] = [2]int{x.S, x.E}
		case "adv":
			c.sentSnap[vb] = [2]int{x.Q, x.Q}
		}
		hold, _ := l["hold"].(bool)
		c.r.Cons.SetHold(hold)
		th := "d" + strconv.Itoa(vb+1)
		r := c.r
		r.S.Go(th, func() {
			r.S.Emit(Ev{"ev": "Sent", "vb": vb + 1, "e": wireEvJSON(x)})
			c.push(vb, x)
			r.S.Emit(Ev{"ev": "Pushed", "vb": vb + 1})
		})
		wait := stepTimeout
		if !c.r.Cfg.RollbackMitigation.Disabled {
			wait = 40 * time.Millisecond // the callback may be waiting at the rollback-mitigation gate (it polls, it does not park)
		}
		c.r.S.WaitUntil(wait, func(p map[string]string, d map[string]bool) bool { return d[th] || p[th] == "consume" })
		if msg, died := c.r.S.Died(th); died {
			// a panic on gocbcore's dispatch goroutine kills the process
			c.r.S.Emit(Ev{"ev": "Died", "msg": msg})
			c.kill()
		}
	case "ConsRet":
		th := "d" + strconv.Itoa(num(l["vb"]))
		if !c.r.S.Release(th, nil) {
			return th + " is not inside ConsumeEvent"
		}
		c.r.S.WaitUntil(stepTimeout, func(p map[string]string, d map[string]bool) bool { return d[th] })
	case "Ack":
		cx := c.r.Cons.Ctx(num(l["i"]) - 1)
		if cx == nil {
			return "no such context"
		}
		c.r.S.Emit(Ev{"ev": "Ack", "vb": cx.Vb, "off": cx.Off})
		cx.C.Ack()
	case "AckBegin":
		cx := c.r.Cons.Ctx(num(l["i"]) - 1)
		if cx == nil {
			return "no such context"
		}
		if _, busy := c.r.S.Parked()["acker"]; busy {
			return "an acknowledgement is already held"
		}
		r := c.r
		r.S.Emit(Ev{"ev": "AckHeld", "vb": cx.Vb, "off": cx.Off})
		r.Cons.HoldTrack.Store(true)
		r.S.Go("acker", func() {
			cx.C.Ack()
			r.S.Emit(Ev{"ev": "AckDone", "vb": cx.Vb, "off": cx.Off})
		})
		r.S.WaitUntil(stepTimeout, func(p map[string]string, d map[string]bool) bool { return d["acker"] || p["acker"] != "" })
		r.Cons.HoldTrack.Store(false) // (an acknowledgement that moves nothing never reaches TrackOffset)
	case "AckMark":
		if c.r.S.Parked()["acker"] != "track" {
			return "no acknowledgement is held inside TrackOffset"
		}
		c.r.S.Release("acker", nil)
		c.r.S.WaitUntil(stepTimeout, func(p map[string]string, d map[string]bool) bool { return d["acker"] })
	case "SaveStart":
		t := str(l["t"])
		if _, busy := c.r.S.Parked()[t]; busy {
			return t + " is busy"
		}
		st := c.r.Stream()
		if st == nil {
			return "no stream"
		}
		r := c.r
		// thread "c" is the consumer committing from its listener: ListenerContext.Commit of the context it was handed last
		// (the same checkpoint.Save as Stream.Save, reached through the context)
		save := st.Save
		if t == "c" && st.IsOpen() {
			if f := r.Cons.Commit(); f != nil {
				save = f
			}
		}
		r.S.Go(t, func() {
			r.S.Emit(Ev{"ev": "SaveCall", "t": t})
			save()
			r.S.Emit(Ev{"ev": "SaveRet", "t": t})
		})
		c.r.S.WaitUntil(stepTimeout, func(p map[string]string, d map[string]bool) bool { return d[t] || p[t] != "" })
	case "SaveLock":
		t := str(l["t"])
		if c.r.S.Parked()[t] != "save.prelock" {
			return t + " is not at save.prelock"
		}
		c.r.S.Release(t, nil)
	case "SaveTake":
		t := str(l["t"])
		if c.r.S.Parked()[t] != "save.take" {
			return t + " is not at save.take"
		}
		c.r.S.Release(t, nil)
	case "StoreWrite":
		t := str(l["t"])
		if c.r.S.Parked()[t] != "md.Save" {
			return t + " is not in metadata.Save"
		}
		if !c.r.Meta.Write(t, uint16(num(l["vb"])-1)) {
			return "vBucket is not dirty in this save"
		}
	case "SaveRet":
		t := str(l["t"])
		if c.r.S.Parked()[t] != "md.Save" {
			return t + " is not in metadata.Save"
		}
		if c.diverged && rel == nil {
			// a store that answers "saved" has stored what it was handed: in a run that left the specification the schedule's
			// StoreWrite steps need not match what this Save call carries
			for _, vb := range c.r.Meta.DirtyOf(t) {
				c.r.Meta.Write(t, vb)
			}
		}
		c.r.S.Release(t, rel)
	case "SaveRemark":
		t := str(l["t"])
		if c.r.S.Parked()[t] != "save.remark" {
			return t + " is not at save.remark"
		}
		c.r.S.Release(t, nil)
	case "CloseCall":
		c.r.S.Emit(Ev{"ev": "CloseCall"})
		c.r.Dcp.Close()
	case "CloseRet":
		th := "lib:CloseStream:" + strconv.Itoa(num(l["vb"]))
		if !c.r.S.Release(th, nil) {
			return th + " is not parked"
		}
	case "CloseEmpty":
	case "Notify":
		c.notified = true
		t := str(l["t"])
		m := &membership.Model{MemberNumber: num(l["member"]), TotalMembers: num(l["total"])}
		c.r.S.Emit(Ev{"ev": "Notify", "src": t, "member": m.MemberNumber, "total": m.TotalMembers})
		if t == "api" {
			// GET /rebalance (api.go): only while the stream is open
			st := c.r.Stream()
			if st == nil || !st.IsOpen() {
				return "stream is not open"
			}
			c.r.S.Go("api", func() { st.Rebalance() })
			c.r.S.WaitUntil(stepTimeout, func(p map[string]string, d map[string]bool) bool { return d["api"] || p["api"] != "" })
		} else {
			// membership backends publish on the bus; the membership's and dcp's listeners are asynchronous
			c.opt.Member, c.opt.Total = m.MemberNumber, m.TotalMembers
			bus := c.r.Bus
			done := make(chan struct{})
			go func() {
				bus.Publish(helpers.MembershipChangedBusEventName, m)
				bus.WaitAsync()
				close(done)
			}()
			n0 := len(c.r.S.Parked())
			deadline := time.Now().Add(stepTimeout)
			for time.Now().Before(deadline) {
				select {
				case <-done:
					deadline = time.Now()
				default:
					if len(c.r.S.Parked()) > n0 {
						deadline = time.Now()
					} else {
						time.Sleep(200 * time.Microsecond)
					}
				}
			}
		}
	case "NotifyLate":
		// a membership change published while / after dcp.close closes the stream (the numbering in effect, once more)
		m := &membership.Model{MemberNumber: c.r.Opt.Member, TotalMembers: c.r.Opt.Total}
		c.r.S.Emit(Ev{"ev": "NotifyLate"})
		bus := c.r.Bus
		done := make(chan struct{})
		go func() {
			bus.Publish(helpers.MembershipChangedBusEventName, m)
			bus.WaitAsync()
			close(done)
		}()
		n0 := len(c.r.S.Parked())
		for deadline := time.Now().Add(stepTimeout); time.Now().Before(deadline); {
			select {
			case <-done:
				deadline = time.Now()
			default:
				if len(c.r.S.Parked()) > n0 {
					deadline = time.Now()
				} else {
					time.Sleep(200 * time.Microsecond)
				}
			}
		}
	case "CbRet":
		th := c.parkedLike("lib:cb.hold")
		if th == "" || !c.r.S.Release(th, nil) {
			return "no handler is held"
		}
	case "RbAcquire":
		// (only reached in a diverged run: the thread proceeds by itself)
	case "RbLock", "RbWait":
		t := str(l["t"])
		th := "api"
		if t != "api" {
			th = c.parkedLike("lib:rb.prelock")
		}
		if th == "" || !c.r.S.Release(th, nil) {
			return "nobody is at rb.prelock"
		}
		if t == "api" {
			if msg, died := c.waitDied("api"); died {
				c.r.S.Emit(Ev{"ev": "Died", "msg": msg})
				c.kill()
			}
		}
	case "TimerFire":
		i := num(l["i"]) - 1
		if i < 0 || i >= len(c.r.Timers) {
			return "no such timer"
		}
		c.r.Timers[i].Reset(0)
	case "End":
		vb := num(l["vb"]) - 1
		ob := c.r.Client.Observer(uint16(vb))
		if ob == nil {
			return "no stream"
		}
		cause := str(l["cause"])
		err, known := endErr[cause]
		if !known {
			return "unknown cause"
		}
		if cause == "statechanged" {
			c.fo[vb] += 100 // a fail-over: the next stream of this vBucket is on a new history branch
			c.w.SetFo(vb, c.fo[vb])
		}
		c.live[vb] = false
		th := "d" + strconv.Itoa(vb+1)
		r := c.r
		r.S.Go(th, func() {
			r.S.Emit(Ev{"ev": "EndSent", "vb": vb + 1, "cause": cause})
			ob.End(models.DcpStreamEnd{VbID: uint16(vb)}, err)
		})
		c.r.S.WaitUntil(stepTimeout, func(p map[string]string, d map[string]bool) bool { return d[th] })
	case "WaitFin":
		th := c.parkedLike("lib:wait." + str(l["k"]))
		if th == "" || !c.r.S.Release(th, nil) {
			return "no wait goroutine is parked"
		}
	case "Crash":
		c.r.S.Emit(Ev{"ev": "Crash"})
		c.kill()
	case "SaveAcquire", "GateOpen":
		// (only reached in a diverged run: nothing to do, the thread proceeds by itself)
	case "RmSwitch":
		on, _ := l["on"].(bool)
		slots := num(c.sch.Cfg["Slots"])
		c.r.RmSwitch(on, slots)
		c.r.S.Emit(Ev{"ev": "RmSwitch", "on": on, "slots": slots})
	case "Report":
		vb, slot, uuid, seq := num(l["vb"]), num(l["slot"]), num(l["uuid"]), num(l["seq"])
		c.r.S.Emit(Ev{"ev": "Report", "vb": vb, "slot": slot, "uuid": uuid, "seq": seq})
		if !c.r.RmReport(vb-1, slot-1, uint64(uuid), uint64(seq)) {
			return "rollback mitigation is off"
		}
	case "Absent":
		vb, slot := num(l["vb"]), num(l["slot"])
		c.r.S.Emit(Ev{"ev": "Absent", "vb": vb, "slot": slot})
		if !c.r.RmAbsent(vb-1, slot-1) {
			return "rollback mitigation is off"
		}
	case "Scrape":
		r := c.r
		r.S.Go("scr", func() { r.S.Emit(r.Scrape()) })
		c.r.S.WaitUntil(stepTimeout, func(p map[string]string, d map[string]bool) bool { return d["scr"] || p["scr"] != "" })
	case "ScrapeRet":
		c.setHigh()
		// the vBuckets whose answer is stale (a high seqno below the tracked position): any subset
		if low, _ := l["low"].([]any); len(low) > 0 {
			for _, v := range low {
				if vb := num(v) - 1; vb >= 0 && vb < len(c.slog) {
					c.w.SetHigh(vb, 0)
				}
			}
		}
		if !c.r.S.Release("scr", nil) {
			return "no scrape in progress"
		}
		c.r.S.WaitUntil(stepTimeout, func(p map[string]string, d map[string]bool) bool { return d["scr"] })
	case "StartWind":
	case "Quiesce":
		if c.diverged {
			// the run no longer follows the specification: let whatever the real code has pending complete (every
			// gate released with a friendly answer, armed timers fired, one flush save), so that the end-of-run
			// obligations are judged on what the code really does
			c.drain()
		}
		c.r.S.Emit(Ev{"ev": "Quiesced"})
	case "Nop":
	default:
		return "unknown label " + a
	}
	return ""
}

func (c *CoreRun) settle() { c.r.S.Settle(2*time.Millisecond, 150*time.Millisecond) }

func (c *CoreRun) releaseAll() bool {
	any := false
	pk := c.r.S.Parked()
	names := make([]string, 0, len(pk))
	for th := range pk {
		names = append(names, th)
	}
	sort.Strings(names)
	for _, th := range names {
		switch pk[th] {
		case "OpenStream":
			parts := strings.Split(th, ":")
			vb, _ := strconv.Atoi(strings.TrimSuffix(parts[len(parts)-1], "#2"))
			if vb >= 1 && vb <= len(c.fo) {
				q := 0
				if st := c.r.Stream(); st != nil {
					if off, _, _ := st.GetOffsets(); off != nil {
						if o, ok := off.Load(uint16(vb - 1)); ok {
							q = int(o.SeqNo)
						}
					}
				}
				c.wire[vb-1] = wireFrom(c.slog[vb-1], q)
				c.live[vb-1] = true
				delete(c.sentSnap, vb-1)
				c.r.S.Release(th, riga.OpenResult{Uuid: c.fo[vb-1]})
			}
		case "md.Save":
			for _, vb := range c.r.Meta.DirtyOf(th) {
				c.r.Meta.Write(th, vb)
			}
			c.r.S.Release(th, nil)
		default:
			c.r.S.Release(th, nil)
		}
		any = true
		c.settle()
	}
	return any
}

func (c *CoreRun) drain() {
	rounds := 0
	for i := 0; i < 60 && c.up && rounds < 12; i++ {
		if c.releaseAll() {
			continue
		}
		fired := false
		for _, t := range c.r.Timers {
			if t.Stop() {
				t.Reset(0)
				fired = true
				c.settle()
			}
		}
		c.r.NoteTimer()
		if !fired {
			break
		}
		rounds++
	}
	// every armed rebalance timer was fired `rounds` times over (each firing: the configured delay has elapsed), every request
	// was answered, nobody announced anything - and a timer is armed again
	if rounds >= 12 && c.up {
		for _, t := range c.r.Timers {
			if t.Stop() {
				t.Reset(time.Hour)
				c.r.S.Emit(Ev{"ev": "Stalled", "rounds": rounds})
				break
			}
		}
	}
	// what was released may be about to end the process (a panic on a goroutine of the library): a run is only called quiescent
	// after it has stayed quiet for a good while - under load a goroutine can take its time
	c.r.S.Settle(400*time.Millisecond, 3*time.Second)
	if st := c.r.Stream(); st != nil && c.up && st.IsOpen() && !c.r.S.IsDone("main") {
		r := c.r
		r.S.Go("z", func() {
			r.S.Emit(Ev{"ev": "SaveCall", "t": "z"})
			st.Save()
			r.S.Emit(Ev{"ev": "SaveRet", "t": "z"})
		})
		c.settle()
		for i := 0; i < 10 && c.releaseAll(); i++ {
		}
	}
}

func (c *CoreRun) waitDied(th string) (string, bool) {
	c.r.S.WaitUntil(100*time.Millisecond, func(p map[string]string, d map[string]bool) bool { return d[th] || p[th] != "" })
	return c.r.S.Died(th)
}

// lockHeld: some thread of the current checkpoint object is inside metadata.Save
func (c *CoreRun) lockHeld() bool {
	return false
}

func (c *CoreRun) kill() {
	c.up = false
}

// steps of the library that no gate separates from the step that causes them (the schedule lists them, the driver
// executes them together with their cause); in read-only metadata mode the whole store phase of a save is one
var readOnlyRun bool

// afterDivergence: the labels still executed once a run has diverged from the specification (see Run)
// wellFormed: may this environment input still be given to the real code although the run has left the specification?
// Only when it is a legitimate input in the state the real code is in, as far as the rig can tell.
func (c *CoreRun) wellFormed(l map[string]any) bool {
	switch str(l["a"]) {
	case "SaveStart", "Crash", "Scrape", "Report", "Absent":
		return true // a user may call Save / Commit at any time, a process may die at any time, a scrape only reads, copies report
	case "Push":
		vb := num(l["vb"]) - 1
		var x WireEv
		xb, _ := json.Marshal(l["x"])
		_ = json.Unmarshal(xb, &x)
		if !c.live[vb] || x.Old || (x.K != "mark" && x.K != "adv" && riga.KeyOfClass[x.Key] == "" && x.K != "sys") {
			return false
		}
		if x.K == "mark" || x.K == "adv" {
			return true
		}
		sn, ok := c.sentSnap[vb]
		return ok && sn[0] <= x.Q && x.Q <= sn[1] // an event inside the snapshot announced on this stream
	case "End":
		vb := num(l["vb"]) - 1
		st := c.r.Stream()
		if st == nil || !c.live[vb] || str(l["cause"]) == "closed" {
			return false
		}
		// a server may end a stream it has accepted while the session is still opening the others (Open() has not returned and
		// stream requests are in flight); otherwise nothing of a close / rebalance / re-open is in progress
		parked := c.r.S.Parked()
		requests := false
		for _, g := range parked {
			requests = requests || g == "OpenStream"
		}
		if !st.IsOpen() && !requests {
			return false // no session
		}
		for _, g := range parked {
			if g == "CloseStream" || g == "rb.prelock" || g == "wait.close" || g == "wait.end" || (g == "OpenStream" && st.IsOpen()) {
				return false
			}
		}
		return !c.notified // (no membership change was ever announced to this process: no rebalance can be under way)
	}
	return false
}

func afterDivergence(l map[string]any) bool {
	if ok, has := l["ok"].(bool); has && !ok {
		return false // an injected failure
	}
	if r, has := l["res"].(string); has && r != "ok" {
		return false // a refused / rolled-back stream request
	}
	if p, has := l["part"].(bool); has && p {
		return false // a backend that answers for only part of the vBuckets
	}
	switch str(l["a"]) {
	case "LoadRet", "SeqNosRet", "FoLogRet", "OpenRet", "ReopenRet", "CloseRet", "CloseEmpty", "StoreWrite", "SaveRet", "SaveRemark", "SaveTake",
		"SaveLock", "SaveAcquire", "ConsRet", "Ack", "AckBegin", "AckMark", "TimerFire", "WaitFin", "RbLock", "RbWait", "RbAcquire", "CbRet", "ScrapeRet", "GateOpen", "StartWind", "Quiesce", "Nop", "Boot":
		return true
	case "RmSwitch":
		on, _ := l["on"].(bool)
		return !on
	}
	return false
}

func autoLabel(l map[string]any) bool {
	a := str(l["a"])
	return a == "SaveAcquire" || a == "GateOpen" || a == "RbAcquire" || (readOnlyRun && a == "SaveRet")
}

// OnStep, if set, is told when a step begins and when its trace line is complete.
var OnStep func(begin bool, i int, tl *TraceLine)

// Run executes the schedule and returns the recorded trace.
func (c *CoreRun) Run() []TraceLine {
	readOnlyRun = c.opt.ReadOnly
	for i := 0; i < len(c.sch.Steps); i++ {
		st := &c.sch.Steps[i]
		if OnStep != nil {
			OnStep(true, i+1, nil)
		}
		// steps that happen by themselves (a thread blocked on the save lock acquires it the moment the holder
		// lets go) are part of the step that causes them: executed together, compared with the merged prediction
		first := i
		if !c.diverged {
			for i+1 < len(c.sch.Steps) && autoLabel(c.sch.Steps[i+1].L) {
				i++
			}
		}
		if i > first {
			merged := Step{L: st.L, Post: c.sch.Steps[i].Post}
			for k := first; k <= i; k++ {
				for _, e := range c.sch.Steps[k].Evs {
					if m, ok := e.(map[string]any); ok && m["ev"] == "State" && k < i {
						continue
					}
					merged.Evs = append(merged.Evs, e)
				}
			}
			st = &merged
		}
		tl := TraceLine{Run: c.sch.ID, I: first + 1, L: st.L}
		wasUp := c.up
		var rOld *riga.Rig = c.r
		reason := ""
		policySkip := false
		if c.diverged && c.up && !afterDivergence(st.L) && !c.wellFormed(st.L) && os.Getenv("VERIF_CONTINUE_AFTER_DIVERGENCE") == "" {
			policySkip = true
			// the run has left the specification: the rest of the schedule was computed for states the real code is not in, so
			// its environment inputs (new events, stream ends, notifications, API calls, injected failures) could break the
			// assumptions every behaviour of the specification respects. From here on only what the library is waiting for is
			// answered (friendly), acknowledgements are passed on, timers fire; the monitors judge what the code then does
			reason = "not executed: the run no longer follows the specification"
		} else {
			reason = c.exec(st.L)
		}
		if reason != "" {
			tl.Skipped = reason
			if c.up && c.r != nil && reason != "process is down" && !policySkip {
				// the real code is not where the schedule expects it: it no longer follows the specification. Let whatever
				// it has pending proceed with friendly answers, so that what it does next is observed and judged
				c.diverged = true
				c.releaseAll()
				if msg, died := c.r.S.Died("main"); died {
					c.r.S.Emit(Ev{"ev": "Died", "msg": msg})
					c.kill()
				}
			}
		} else if c.up {
			c.await(st)
			// the main thread died (panic inside dcp.Start / close): the process is gone
			if msg, died := c.r.S.Died("main"); died {
				c.r.S.Emit(Ev{"ev": "Died", "msg": msg})
				c.kill()
			}
		}
		var evs []Ev
		if c.r != nil {
			if c.up && !c.r.StoppedSeen && c.r.Stopped() {
				c.r.StoppedSeen = true
				c.r.S.Emit(Ev{"ev": "Stopped"})
			}
			evs = c.r.S.Drain()
		}
		if c.up && c.r != nil {
			c.r.NoteTimer()
			evs = append(evs, c.r.StateEv())
			tl.Post = c.r.Post()
			tl.Post["up"] = true
		} else {
			tl.Post = Ev{"up": false}
			if wasUp && rOld != nil {
				rOld.S.Kill()
				rOld.Reap()
			}
		}
		tl.Evs = evs
		if reason == "" && st.Post != nil {
			tl.Diff = DiffStep(*st, tl)
			if tl.Diff != "" {
				c.diverged = true
			}
		}
		c.lines = append(c.lines, tl)
		if OnStep != nil {
			OnStep(false, first+1, &c.lines[len(c.lines)-1])
		}
		for k := first + 1; k <= i; k++ {
			c.lines = append(c.lines, TraceLine{Run: c.sch.ID, I: k + 1, L: c.sch.Steps[k].L, Post: tl.Post})
		}
	}
	// a schedule that ends with the death of the process has no Quiesce step; if the real process lives on (the run diverged),
	// what it has pending is completed here so that the end-of-run obligations are judged on it as well
	if n := len(c.sch.Steps); c.up && c.r != nil && c.diverged && (n == 0 || str(c.sch.Steps[n-1].L["a"]) != "Quiesce") {
		c.drain()
		c.r.S.Emit(Ev{"ev": "Quiesced"})
		tl := TraceLine{Run: c.sch.ID, I: n + 1, L: map[string]any{"a": "Quiesce", "added": true}, Evs: c.r.S.Drain(), Post: Ev{"up": c.up}}
		if c.up {
			tl.Evs = append(tl.Evs, c.r.StateEv())
		}
		c.lines = append(c.lines, tl)
		if OnStep != nil {
			OnStep(true, n+1, nil)
			OnStep(false, n+1, &c.lines[len(c.lines)-1])
		}
	}
	if c.r != nil {
		c.r.S.Kill()
		c.r.Reap()
	}
	return c.lines
}

// DiffStep compares prediction and observation. Events emitted by concurrent goroutines within one
// step have no defined order, so events are compared as multisets.
func DiffStep(st Step, tl TraceLine) string {
	want := make([]string, 0, len(st.Evs))
	for _, e := range st.Evs {
		want = append(want, Canon(e))
	}
	got := make([]string, 0, len(tl.Evs))
	for _, e := range tl.Evs {
		m := map[string]any{}
		for k, v := range e {
			if k == "msg" { // free text
				continue
			}
			m[k] = v
		}
		got = append(got, Canon(m))
	}
	dies := false
	for _, e := range st.Evs {
		if m, ok := e.(map[string]any); ok && (m["ev"] == "Died") {
			dies = true
		}
	}
	if dies {
		// the process dies in this step: which goroutines got how far before the panic is not determined
		for _, e := range tl.Evs {
			if e["ev"] == "Died" {
				return ""
			}
		}
		return "spec says the process dies in this step"
	}
	ws, gs := append([]string{}, want...), append([]string{}, got...)
	sort.Strings(ws)
	sort.Strings(gs)
	if fmt.Sprint(ws) != fmt.Sprint(gs) {
		return fmt.Sprintf("events: want %v got %v", want, got)
	}
	up, _ := st.Post["up"].(bool)
	if !up {
		if u, _ := tl.Post["up"].(bool); u {
			return "spec says the process is down"
		}
		return ""
	}
	for k, wv := range st.Post {
		gv, ok := tl.Post[k]
		if !ok {
			continue
		}
		if k == "parked" {
			wv, gv = sortedStrs(wv), sortedStrs(gv)
		}
		if Canon(wv) != Canon(gv) {
			return fmt.Sprintf("post.%s: want %s got %s", k, Canon(wv), Canon(gv))
		}
	}
	return ""
}

func sortedStrs(v any) any {
	var l []string
	switch x := v.(type) {
	case []any:
		for _, e := range x {
			l = append(l, fmt.Sprint(e))
		}
	case []string:
		l = append(l, x...)
	default:
		return v
	}
	sort.Strings(l)
	return l
}
