// Package drivers executes schedules produced by TLC (sequences of labelled steps of the
// specification) on the real go-dcp code and records, per step, the observable events the real code
// emitted and the projection of its state, next to what the specification predicted.
package drivers

import (
	"encoding/json"
	"fmt"
	"sort"
	"strconv"
	"time"

	"github.com/Trendyol/go-dcp/models"
	"github.com/couchbase/gocbcore/v10"

	"verifharness/riga"
	"verifharness/sched"
)

type Ev = sched.Ev

// Step is one entry of a schedule: the label and the specification's predictions.
type Step struct {
	L    map[string]any `json:"l"`
	Evs  []any          `json:"evs"`
	Post map[string]any `json:"post"`
}

// Schedule is one behaviour of the specification.
type Schedule struct {
	ID    int            `json:"id"`
	Cfg   map[string]any `json:"cfg"`
	Steps []Step         `json:"steps"`
}

// TraceLine is what the driver records for one executed step.
type TraceLine struct {
	Run     int            `json:"run"`
	I       int            `json:"i"`
	L       map[string]any `json:"l"`
	Evs     []Ev           `json:"evs"`
	Post    Ev             `json:"post,omitempty"`
	Skipped string         `json:"skipped,omitempty"` // the step could not be executed on the real code
	Diff    string         `json:"diff,omitempty"`    // first difference from the specification's prediction
}

const stepTimeout = 1500 * time.Millisecond

func num(v any) int {
	switch x := v.(type) {
	case float64:
		return int(x)
	case int:
		return x
	case int64:
		return int(x)
	case json.Number:
		i, _ := x.Int64()
		return int(i)
	}
	return 0
}

func str(v any) string { s, _ := v.(string); return s }

// Canon renders any JSON-like value canonically (sorted keys, integers without exponent).
func Canon(v any) string {
	b, _ := json.Marshal(normalize(v))
	return string(b)
}

func normalize(v any) any {
	switch x := v.(type) {
	case map[string]any:
		m := map[string]any{}
		for k, e := range x {
			m[k] = normalize(e)
		}
		return m
	case []any:
		l := make([]any, len(x))
		for i, e := range x {
			l[i] = normalize(e)
		}
		return l
	case []Ev:
		l := make([]any, len(x))
		for i, e := range x {
			l[i] = normalize(e)
		}
		return l
	case []int:
		l := make([]any, len(x))
		for i, e := range x {
			l[i] = int64(e)
		}
		return l
	case []string:
		l := make([]any, len(x))
		for i, e := range x {
			l[i] = e
		}
		return l
	case float64:
		return int64(x)
	case int:
		return int64(x)
	case uint64:
		return int64(x)
	}
	return v
}

// wire event of the specification -> call on the real observer
type WireEv struct {
	K   string `json:"k"`
	Q   int    `json:"q"`
	S   int    `json:"s"`
	E   int    `json:"e"`
	Key string `json:"key"`
	Old bool   `json:"old"`
}

// CoreRun executes one schedule of Core.tla.
type CoreRun struct {
	sch   *Schedule
	w     *riga.World
	r     *riga.Rig
	opt   riga.Options
	hist  [][]WireEv // per Go vb: server history
	wire  [][]WireEv // per Go vb: what the server still has to send on the current stream
	fo    []uint64
	skip  time.Time
	lines []TraceLine
	up    bool
}

func wireFrom(h []WireEv, q int) []WireEv {
	var out []WireEv
	var pending *WireEv
	for i := range h {
		x := h[i]
		if x.K == "mark" {
			pending = &h[i]
			continue
		}
		if x.Q <= q {
			continue
		}
		if pending != nil {
			out = append(out, *pending)
			pending = nil
		}
		out = append(out, x)
	}
	return out
}

func NewCoreRun(sch *Schedule) *CoreRun {
	c := &CoreRun{sch: sch}
	nvb := num(sch.Cfg["NVB"])
	c.w = riga.NewWorld(nvb)
	hb, _ := json.Marshal(sch.Cfg["Hist"])
	_ = json.Unmarshal(hb, &c.hist)
	for _, f := range sch.Cfg["FoUuid"].([]any) {
		c.fo = append(c.fo, uint64(num(f)))
	}
	for vb := 0; vb < nvb; vb++ {
		hi := 0
		for _, x := range c.hist[vb] {
			if x.Q > hi {
				hi = x.Q
			}
		}
		c.w.High[vb] = uint64(hi)
		c.w.FoLog[vb] = []gocbcore.FailoverEntry{{VbUUID: gocbcore.VbUUID(c.fo[vb]), SeqNo: 0}}
	}
	c.opt = riga.Options{AutoReset: str(sch.Cfg["AutoReset"])}
	// events flagged "old" carry a CAS before skipUntil
	c.skip = time.Unix(1700000000, 0)
	c.opt.SkipUntil = &c.skip
	c.wire = make([][]WireEv, nvb)
	return c
}

func (c *CoreRun) cas(old bool) uint64 {
	if old {
		return uint64(1600000000) * 1000000000
	}
	return uint64(1800000000) * 1000000000
}

func (c *CoreRun) push(vb int, x WireEv) {
	ob := c.r.Client.Observer(uint16(vb))
	key := []byte(riga.KeyOfClass[x.Key])
	switch x.K {
	case "mark":
		ob.SnapshotMarker(models.DcpSnapshotMarker{VbID: uint16(vb), StartSeqNo: uint64(x.S), EndSeqNo: uint64(x.E)})
	case "mut":
		ob.Mutation(gocbcore.DcpMutation{VbID: uint16(vb), SeqNo: uint64(x.Q), Key: key, Cas: c.cas(x.Old), Value: []byte("v")})
	case "del":
		ob.Deletion(gocbcore.DcpDeletion{VbID: uint16(vb), SeqNo: uint64(x.Q), Key: key, Cas: c.cas(x.Old)})
	case "exp":
		ob.Expiration(gocbcore.DcpExpiration{VbID: uint16(vb), SeqNo: uint64(x.Q), Key: key, Cas: c.cas(x.Old)})
	case "sys":
		ob.CreateCollection(gocbcore.DcpCollectionCreation{VbID: uint16(vb), SeqNo: uint64(x.Q), Key: []byte("c")})
	case "adv":
		ob.SeqNoAdvanced(gocbcore.DcpSeqNoAdvanced{VbID: uint16(vb), SeqNo: uint64(x.Q)})
	}
}

func wireEvJSON(x WireEv) Ev {
	return Ev{"k": x.K, "q": x.Q, "s": x.S, "e": x.E, "key": x.Key, "old": x.Old}
}

// wait until thread th is parked at gate g
func (c *CoreRun) waitParked(th, g string) bool {
	return c.r.S.WaitUntil(stepTimeout, func(p map[string]string, d map[string]bool) bool { return p[th] == g })
}

func (c *CoreRun) waitDoneOrParked(th string, gates ...string) bool {
	return c.r.S.WaitUntil(stepTimeout, func(p map[string]string, d map[string]bool) bool {
		if d[th] {
			return true
		}
		for _, g := range gates {
			if p[th] == g {
				return true
			}
		}
		return false
	})
}

// exec runs one labelled step; returns "" or the reason it could not be executed.
func (c *CoreRun) exec(l map[string]any) string {
	a := str(l["a"])
	if a != "Boot" && (!c.up || c.r == nil) {
		return "process is down"
	}
	switch a {
	case "Boot":
		if c.up {
			return "process is up"
		}
		c.r = riga.Boot(c.w, c.opt)
		c.up = true
		for vb := range c.wire {
			c.wire[vb] = nil
		}
		c.r.S.Emit(Ev{"ev": "Boot"})
		r := c.r
		r.S.Go("main", func() { r.Stream.Open() })
		if !c.waitParked("main", "md.Load") {
			return "Open did not reach metadata.Load"
		}
	case "LoadRet":
		if !c.r.S.Release("main", nil) {
			return "main is not parked"
		}
		c.waitParked("main", "GetVBucketSeqNos")
	case "SeqNosRet":
		if !c.r.S.Release("main", nil) {
			return "main is not parked"
		}
		n := c.w.NVB
		c.r.S.WaitUntil(stepTimeout, func(p map[string]string, d map[string]bool) bool {
			k := 0
			for th := range p {
				if len(th) > 15 && th[:15] == "lib:OpenStream:" {
					k++
				}
			}
			return k >= n || d["main"]
		})
	case "OpenRet":
		vb := num(l["vb"])
		th := "lib:OpenStream:" + strconv.Itoa(vb)
		left := 0
		for t := range c.r.S.Parked() {
			if len(t) > 15 && t[:15] == "lib:OpenStream:" {
				left++
			}
		}
		off, _, _ := c.r.Stream.GetOffsets()
		q := 0
		if o, ok := off.Load(uint16(vb - 1)); ok {
			q = int(o.SeqNo)
		}
		if !c.r.S.Release(th, riga.OpenResult{Uuid: c.fo[vb-1]}) {
			return th + " is not parked"
		}
		c.wire[vb-1] = wireFrom(c.hist[vb-1], q)
		if left == 1 {
			c.waitDoneOrParked("main")
		} else {
			// the goroutine emits OpenRet and finishes
			c.r.S.Settle(2*time.Millisecond, 50*time.Millisecond)
		}
	case "Push":
		vb := num(l["vb"]) - 1
		if c.r.Client.Observer(uint16(vb)) == nil || len(c.wire[vb]) == 0 {
			return "nothing to push"
		}
		x := c.wire[vb][0]
		c.wire[vb] = c.wire[vb][1:]
		th := "d" + strconv.Itoa(vb+1)
		r := c.r
		r.S.Go(th, func() {
			r.S.Emit(Ev{"ev": "Sent", "vb": vb + 1, "e": wireEvJSON(x)})
			c.push(vb, x)
			r.S.Emit(Ev{"ev": "Pushed", "vb": vb + 1})
		})
		c.waitDoneOrParked(th, "consume")
		if msg, died := c.r.S.Died(th); died {
			// a panic on gocbcore's dispatch goroutine kills the process
			c.r.S.Emit(Ev{"ev": "Died", "msg": msg})
			c.kill()
		}
	case "Ack":
		cx := c.r.Cons.Ctx(num(l["i"]) - 1)
		if cx == nil {
			return "no such context"
		}
		c.r.S.Emit(Ev{"ev": "Ack", "vb": cx.Vb, "off": cx.Off})
		cx.C.Ack()
	case "SaveStart":
		t := str(l["t"])
		if _, busy := c.r.S.Parked()[t]; busy {
			return t + " is busy"
		}
		r := c.r
		r.S.Go(t, func() {
			r.S.Emit(Ev{"ev": "SaveCall", "t": t})
			r.Stream.Save()
			r.S.Emit(Ev{"ev": "SaveRet", "t": t})
		})
		c.waitDoneOrParked(t, "save.prelock", "md.Save")
	case "SaveLock":
		t := str(l["t"])
		if c.r.S.Parked()[t] != "save.prelock" {
			return t + " is not at save.prelock"
		}
		if c.lockHeld() {
			return "save lock is held"
		}
		c.r.S.Release(t, nil)
		c.waitDoneOrParked(t, "md.Save")
	case "StoreWrite":
		t := str(l["t"])
		if c.r.S.Parked()[t] != "md.Save" {
			return t + " is not in metadata.Save"
		}
		if !c.r.Meta.Write(t, uint16(num(l["vb"])-1)) {
			return "vBucket is not dirty in this save"
		}
	case "SaveRet":
		t := str(l["t"])
		if c.r.S.Parked()[t] != "md.Save" {
			return t + " is not in metadata.Save"
		}
		var v any
		if ok, _ := l["ok"].(bool); !ok {
			v = riga.ErrInjected
		}
		c.r.S.Release(t, v)
		c.waitDoneOrParked(t)
	case "Crash":
		c.r.S.Emit(Ev{"ev": "Crash"})
		c.kill()
	case "Nop":
	default:
		return "unknown label " + a
	}
	return ""
}

// lockHeld: some thread is inside metadata.Save (it holds the save lock)
func (c *CoreRun) lockHeld() bool {
	for _, g := range c.r.S.Parked() {
		if g == "md.Save" {
			return true
		}
	}
	return false
}

func (c *CoreRun) kill() {
	c.up = false
}

// Run executes the schedule and returns the recorded trace.
func (c *CoreRun) Run() []TraceLine {
	for i, st := range c.sch.Steps {
		tl := TraceLine{Run: c.sch.ID, I: i + 1, L: st.L}
		wasUp := c.up
		var rOld *riga.Rig = c.r
		reason := c.exec(st.L)
		if reason != "" {
			tl.Skipped = reason
		}
		var evs []Ev
		if c.r != nil {
			evs = c.r.S.Drain()
		}
		if c.up && c.r != nil {
			evs = append(evs, c.r.StateEv())
			tl.Post = c.r.Post()
			tl.Post["up"] = true
		} else {
			tl.Post = Ev{"up": false}
			if wasUp && rOld != nil {
				rOld.S.Kill()
			}
		}
		tl.Evs = evs
		if reason == "" && st.Post != nil {
			tl.Diff = diffStep(st, tl)
		}
		c.lines = append(c.lines, tl)
	}
	if c.r != nil {
		c.r.S.Kill()
	}
	return c.lines
}

// diffStep compares prediction and observation. Events emitted by concurrent goroutines within one
// step have no defined order, so events are compared as multisets.
func diffStep(st Step, tl TraceLine) string {
	want := make([]string, 0, len(st.Evs))
	for _, e := range st.Evs {
		want = append(want, Canon(e))
	}
	got := make([]string, 0, len(tl.Evs))
	for _, e := range tl.Evs {
		m := map[string]any{}
		for k, v := range e {
			if k == "msg" { // free text
				continue
			}
			m[k] = v
		}
		got = append(got, Canon(m))
	}
	ws, gs := append([]string{}, want...), append([]string{}, got...)
	sort.Strings(ws)
	sort.Strings(gs)
	if fmt.Sprint(ws) != fmt.Sprint(gs) {
		return fmt.Sprintf("events: want %v got %v", want, got)
	}
	up, _ := st.Post["up"].(bool)
	if !up {
		if u, _ := tl.Post["up"].(bool); u {
			return "spec says the process is down"
		}
		return ""
	}
	for k, wv := range st.Post {
		gv, ok := tl.Post[k]
		if !ok {
			continue
		}
		if k == "parked" {
			wv, gv = sortedStrs(wv), sortedStrs(gv)
		}
		if Canon(wv) != Canon(gv) {
			return fmt.Sprintf("post.%s: want %s got %s", k, Canon(wv), Canon(gv))
		}
	}
	return ""
}

func sortedStrs(v any) any {
	var l []string
	switch x := v.(type) {
	case []any:
		for _, e := range x {
			l = append(l, fmt.Sprint(e))
		}
	case []string:
		l = append(l, x...)
	default:
		return v
	}
	sort.Strings(l)
	return l
}
