package drivers

import (
	"context"
	"errors"
	"fmt"
	"strings"
	"sync"
	"time"

	"github.com/Trendyol/go-dcp/config"
	"github.com/Trendyol/go-dcp/couchbase"
	"github.com/Trendyol/go-dcp/models"
	"github.com/Trendyol/go-dcp/tracing"
	"github.com/couchbase/gocbcore/v10"
	"github.com/couchbase/gocbcore/v10/memd"

	"verifharness/riga"
	"verifharness/sched"
	"verifharness/simnode"
)

// WireRun executes one behaviour of AsyncOp.tla on a REAL wrapper of couchbase/client.go or doc_op.go over real gocbcore
// agents connected to the simulated node: the label sequence says what the server does with the request (answers ok,
// answers an error status, stays silent); the deadline is the wrapper's own (the context the caller passes for doc_op.go,
// the hard-coded 60 s of client.go). Observable: Submit, Served(outcome), Return(result); the statements of the completion
// callback cannot be scheduled on a real agent, so only the orders without a racing deadline are run here.
type WireRun struct {
	sch *Schedule
	s   *sched.Sched
}

func NewWireRun(sch *Schedule) *WireRun { riga.QuietLog(); return &WireRun{sch: sch, s: sched.New()} }

var wireCmd = map[string]memd.CmdCode{
	"GetVBucketSeqNos": memd.CmdGetAllVBSeqnos, "GetFailOverLogs": memd.CmdDcpGetFailoverLog, "OpenStream": memd.CmdDcpStreamReq,
	"CloseStream": memd.CmdDcpCloseStream, "GetCollectionIDs": memd.CmdCollectionsGetID,
	"Get": memd.CmdGet, "CreateDocument": memd.CmdSet, "UpdateDocument": memd.CmdSubDocMultiMutation, "DeleteDocument": memd.CmdDelete,
	"UpsertXattrs": memd.CmdSubDocMultiMutation, "GetXattrs": memd.CmdSubDocMultiLookup, "CreatePath": memd.CmdSubDocMultiMutation,
	// the document operations the way the library itself calls them (its own contexts and deadlines): the Couchbase metadata backend
	"MetaLoad": memd.CmdSubDocMultiLookup, "MetaSave": memd.CmdSubDocMultiMutation, "MetaClear": memd.CmdDelete,
}

func classify(err error) string {
	switch {
	case err == nil:
		return "ok"
	case errors.Is(err, context.DeadlineExceeded), errors.Is(err, gocbcore.ErrTimeout), errors.Is(err, gocbcore.ErrUnambiguousTimeout),
		errors.Is(err, gocbcore.ErrAmbiguousTimeout), errors.Is(err, gocbcore.ErrRequestCanceled):
		return "timeout"
	}
	return "fail"
}

// a real observer with listeners that do nothing
func nopObserver(cfg *config.Dcp, vb uint16) couchbase.Observer {
	return couchbase.NewObserver(cfg, vb, 0, func(models.ListenerArgs) {}, func(models.DcpStreamEndContext) {}, map[uint32]string{}, tracing.NewTracerComponent())
}

func (w *WireRun) Run() []TraceLine {
	name, _ := w.sch.Cfg["wrapper"].(string)
	mode := "silent"
	for _, st := range w.sch.Steps {
		if str(st.L["a"]) == "CbStart" {
			mode = str(st.L["o"])
		}
	}
	tl := TraceLine{Run: w.sch.ID, I: 1, L: map[string]any{"a": "Call", "w": name, "mode": mode}}
	if OnStep != nil {
		OnStep(true, 1, nil)
	}
	finish := func(skipped string) []TraceLine {
		tl.Skipped = skipped
		tl.Evs = w.s.Drain()
		tl.Post = Ev{"up": true}
		if OnStep != nil {
			OnStep(false, 1, &tl)
		}
		return []TraceLine{tl}
	}
	cmd, known := wireCmd[name]
	if !known {
		return finish("unknown wrapper " + name)
	}
	node := simnode.Start("b1", 4)
	wire := simnode.NewWire(4)
	node.Handler = wire.Handler()
	cfg := &config.Dcp{Hosts: []string{fmt.Sprintf("http://127.0.0.1:%d", node.HTTPPort())}, Username: "user", Password: "password", BucketName: "b1"}
	cfg.Dcp.Group.Name = "g"
	cfg.ApplyDefaults()
	cfg.Checkpoint.Timeout = 400 * time.Millisecond
	cl := couchbase.NewClient(cfg)
	if err := cl.Connect(); err != nil {
		return finish("connect: " + err.Error())
	}
	if err := cl.DcpConnect(true, false); err != nil {
		return finish("dcp connect: " + err.Error())
	}
	// documents the "ok" cases need
	wire.Store.SetBody("doc1", []byte(`{"a":1}`))
	wire.Store.With(func(d map[string]*simnode.Doc) { d["doc1"].Xattrs = map[string][]byte{"chk": []byte(`{"x":1}`)} })
	if strings.HasPrefix(name, "Meta") {
		// the checkpoint document of vBucket 1 exists (a missing one is "no checkpoint yet" for Load and makes Save create it first)
		id := "_connector:cbgo:g:checkpoint:1"
		wire.Store.SetBody(id, []byte(`{}`))
		wire.Store.With(func(d map[string]*simnode.Doc) {
			d[id].Xattrs = map[string][]byte{"cbgo": []byte(`{"checkpoint":{"vbuuid":1,"seqno":1,"snapshot":{"startSeqno":1,"endSeqno":1}},"bucketUuid":"uuid"}`)}
		})
	}
	if name == "CloseStream" {
		// a stream must be open before it can be closed
		_ = cl.OpenStream(1, map[uint32]string{}, &models.Offset{SnapshotMarker: &models.SnapshotMarker{}}, nopObserver(cfg, 1))
	}
	var once sync.Once
	wire.OnServe = func(c memd.CmdCode, o string) {
		if c == cmd {
			once.Do(func() { w.s.Emit(Ev{"ev": "Served", "outcome": o}) })
		}
	}
	wire.Set(mode, cmd)
	docDeadline := 400 * time.Millisecond
	agent := cl.GetAgent()
	call := func() error {
		ctx, cancel := context.WithTimeout(context.Background(), docDeadline)
		defer cancel()
		switch name {
		case "GetVBucketSeqNos":
			_, err := cl.GetVBucketSeqNos(false)
			return err
		case "GetFailOverLogs":
			_, err := cl.GetFailOverLogs(1)
			return err
		case "OpenStream":
			return cl.OpenStream(2, map[uint32]string{}, &models.Offset{SnapshotMarker: &models.SnapshotMarker{}}, nopObserver(cfg, 1))
		case "CloseStream":
			return cl.CloseStream(1)
		case "GetCollectionIDs":
			_, err := cl.GetCollectionIDs("_default", []string{"_default"})
			return err
		case "Get":
			_, err := couchbase.Get(ctx, agent, "_default", "_default", []byte("doc1"))
			return err
		case "CreateDocument":
			return couchbase.CreateDocument(ctx, agent, "_default", "_default", []byte("doc2"), []byte(`{}`), 0, 0)
		case "UpdateDocument":
			return couchbase.UpdateDocument(ctx, agent, "_default", "_default", []byte("doc1"), []byte(`{"b":2}`), 0, nil)
		case "DeleteDocument":
			return couchbase.DeleteDocument(ctx, agent, "_default", "_default", []byte("doc1"))
		case "UpsertXattrs":
			return couchbase.UpsertXattrs(ctx, agent, "_default", "_default", []byte("doc1"), "chk", []byte(`{"x":2}`), 0)
		case "GetXattrs":
			_, err := couchbase.GetXattrs(ctx, agent, "_default", "_default", []byte("doc1"), "chk")
			return err
		case "CreatePath":
			return couchbase.CreatePath(ctx, agent, "_default", "_default", []byte("doc1"), []byte("p"), []byte(`1`), 0)
		case "MetaLoad", "MetaSave", "MetaClear":
			// (Load panics on an error that is not "no such document": fail-stop, reported as the error it died with)
			var err error
			func() {
				defer func() {
					if r := recover(); r != nil {
						if e, ok := r.(error); ok {
							err = e
						} else {
							err = fmt.Errorf("%v", r)
						}
					}
				}()
				md := couchbase.NewCBMetadata(cl, cfg)
				switch name {
				case "MetaLoad":
					_, _, err = md.Load([]uint16{1}, "uuid")
				case "MetaSave":
					err = md.Save(map[uint16]*models.CheckpointDocument{1: models.NewEmptyCheckpointDocument("uuid")}, map[uint16]bool{1: true}, "uuid")
				case "MetaClear":
					err = md.Clear([]uint16{1})
				}
			}()
			return err
		}
		return errors.New("unreachable")
	}
	w.s.Emit(Ev{"ev": "Submit", "ok": true})
	t0 := time.Now()
	w.s.Go("caller", func() {
		err := call()
		msg := ""
		if err != nil {
			msg = err.Error()
		}
		w.s.Emit(Ev{"ev": "Return", "result": classify(err), "msg": msg, "after_ms": time.Since(t0).Milliseconds()})
	})
	// how long the wrapper may take: the caller's context for doc_op.go (GetXattrs adds a fixed 5 s gocbcore deadline that is
	// longer than the context: the context decides), 60 s for the wrappers of client.go
	limit := 3 * time.Second
	if mode == "silent" && name == "MetaLoad" {
		limit = 9 * time.Second // (the checkpoint read has a fixed 5 s deadline of its own)
	} else if mode == "silent" && !strings.HasPrefix(name, "Meta") && !strings.Contains("Get CreateDocument UpdateDocument DeleteDocument UpsertXattrs GetXattrs CreatePath", name) {
		limit = 75 * time.Second
	}
	w.s.WaitUntil(limit, func(_ map[string]string, d map[string]bool) bool { return d["caller"] })
	if mode == "silent" {
		w.s.Emit(Ev{"ev": "Deadline"})
	}
	w.s.Emit(Ev{"ev": "QuiescedWire", "wrapper": name, "mode": mode})
	lines := finish("")
	wire.Set("ok", cmd)
	go func() { cl.DcpClose(); cl.Close() }()
	return lines
}
