package drivers

import (
	"time"

	"github.com/Trendyol/go-dcp/config"
	"github.com/Trendyol/go-dcp/couchbase"

	"verifharness/riga"
	"verifharness/sched"
)

// HealthRun executes one schedule of HealthCheck.tla on the real couchbase.NewHealthCheck.
// The ticker of the real code is free-running (Interval 25 ms): rounds the schedule did not ask for are answered
// with a successful ping (an environment behaviour the specification allows); a fifth failed ping panics on the
// library's goroutine, so these schedules run in isolated child processes.
type HealthRun struct {
	sch   *Schedule
	s     *sched.Sched
	hc    couchbase.HealthCheck
	lines []TraceLine
}

func NewHealthRun(sch *Schedule) *HealthRun {
	riga.QuietLog()
	h := &HealthRun{sch: sch, s: sched.New()}
	cl := riga.NewBareClient(h.s)
	h.hc = couchbase.NewHealthCheck(&config.HealthCheck{Interval: 25 * time.Millisecond, Timeout: time.Second}, cl)
	return h
}

const pingGate = "lib:Ping"

func (h *HealthRun) waitPing(d time.Duration) bool {
	return h.s.WaitUntil(d, func(p map[string]string, _ map[string]bool) bool { return p[pingGate] == "Ping" })
}

func (h *HealthRun) exec(l map[string]any) string {
	switch str(l["a"]) {
	case "Start":
		h.s.Emit(Ev{"ev": "Start"})
		h.hc.Start()
	case "Tick":
		if !h.waitPing(500 * time.Millisecond) {
			return "no ping arrived"
		}
	case "Retry":
		if !h.waitPing(1500 * time.Millisecond) {
			return "no retry ping arrived"
		}
	case "PingRet":
		if !h.waitPing(200 * time.Millisecond) {
			return "no ping in flight"
		}
		var v any
		if ok, _ := l["ok"].(bool); !ok {
			v = riga.ErrInjected
		}
		h.s.Release(pingGate, v)
		h.s.Settle(2*time.Millisecond, 60*time.Millisecond)
	case "Stop":
		h.s.Emit(Ev{"ev": "StopCall"})
		h.s.Go("stopper", func() {
			h.hc.Stop()
			h.s.Emit(Ev{"ev": "StopRet"})
		})
		h.s.WaitUntil(80*time.Millisecond, func(_ map[string]string, d map[string]bool) bool { return d["stopper"] })
	case "Quiesce":
		// rounds nobody asked for: answer with success; then look for pings issued although Stop has returned
		for i := 0; i < 3 && h.waitPing(70*time.Millisecond); i++ {
			h.s.Release(pingGate, nil)
			h.s.Settle(2*time.Millisecond, 40*time.Millisecond)
		}
		h.s.Emit(Ev{"ev": "Quiesced"})
	case "Nop":
	default:
		return "unknown label"
	}
	return ""
}

func (h *HealthRun) Run() []TraceLine {
	for i := range h.sch.Steps {
		st := &h.sch.Steps[i]
		if OnStep != nil {
			OnStep(true, i+1, nil)
		}
		tl := TraceLine{Run: h.sch.ID, I: i + 1, L: st.L}
		// a round started by the free-running ticker that the schedule does not continue: let it succeed first
		a := str(st.L["a"])
		if (a == "Stop" || a == "Start") && st.Post != nil {
			if ph, _ := st.Post["phase"].(string); ph == "idle" || a == "Start" {
				if pk := h.s.Parked(); pk[pingGate] == "Ping" && i > 0 {
					if prev, _ := h.sch.Steps[i-1].Post["phase"].(string); prev == "idle" {
						h.s.Release(pingGate, nil)
						h.s.Settle(2*time.Millisecond, 40*time.Millisecond)
					}
				}
			}
		}
		if r := h.exec(st.L); r != "" {
			tl.Skipped = r
		}
		tl.Evs = h.s.Drain()
		tl.Post = Ev{"up": true}
		h.lines = append(h.lines, tl)
		if OnStep != nil {
			OnStep(false, i+1, &h.lines[len(h.lines)-1])
		}
	}
	// a schedule that ends with the death of the process has no Quiesce step: if the process is still here a moment later
	// (the panic follows the fifth failed ping at once), the end-of-run obligations are judged on what it does instead
	if n := len(h.sch.Steps); n > 0 && str(h.sch.Steps[n-1].L["a"]) != "Quiesce" {
		dies := false
		for _, e := range h.sch.Steps[n-1].Evs {
			if m, ok := e.(map[string]any); ok && m["ev"] == "Died" {
				dies = true
			}
		}
		if dies {
			time.Sleep(400 * time.Millisecond)
			h.s.Emit(Ev{"ev": "Quiesced"})
			tl := TraceLine{Run: h.sch.ID, I: n + 1, L: map[string]any{"a": "Quiesce", "added": true}, Evs: h.s.Drain(), Post: Ev{"up": true}}
			h.lines = append(h.lines, tl)
			if OnStep != nil {
				OnStep(true, n+1, nil)
				OnStep(false, n+1, &h.lines[len(h.lines)-1])
			}
		}
	}
	return h.lines
}
