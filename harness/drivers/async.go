package drivers

import (
	"context"
	"errors"
	"sync"
	"sync/atomic"
	"time"

	"github.com/Trendyol/go-dcp/couchbase"

	"verifharness/sched"
)

// AsyncRun binds AsyncOp.tla to the real couchbase.NewAsyncOp: the caller side is the pattern every wrapper of
// client.go / doc_op.go uses (Wait, then read the result channel); the completion side (Resolve, then the send on the
// 1-buffered result channel) and the deadline are driven statement by statement in the order the schedule gives.
type AsyncRun struct {
	sch *Schedule
	s   *sched.Sched
}

func NewAsyncRun(sch *Schedule) *AsyncRun { return &AsyncRun{sch: sch, s: sched.New()} }

type fakeOp struct {
	mu        sync.Mutex
	cancelled bool
	onCancel  func()
	emit      func(Ev)
}

func (o *fakeOp) Cancel() {
	if o.emit != nil {
		o.emit(Ev{"ev": "Cancel"})
	}
	o.mu.Lock()
	o.cancelled = true
	f := o.onCancel
	o.onCancel = nil
	o.mu.Unlock()
	if f != nil {
		f() // gocbcore invokes the callback with a cancel error from inside Cancel when the operation is still pending
	}
}

type manualDeadline struct {
	mu   sync.Mutex
	done chan struct{}
	err  error
}

func (m *manualDeadline) Deadline() (time.Time, bool) { return time.Now().Add(time.Hour), true }
func (m *manualDeadline) Done() <-chan struct{}       { return m.done }
func (m *manualDeadline) Value(any) any               { return nil }
func (m *manualDeadline) Err() error {
	m.mu.Lock()
	defer m.mu.Unlock()
	return m.err
}
func (m *manualDeadline) expire() {
	m.mu.Lock()
	if m.err == nil {
		m.err = context.DeadlineExceeded
		close(m.done)
	}
	m.mu.Unlock()
}

var errServer = errors.New("server error status")
var errCancel = errors.New("request canceled")

func (a *AsyncRun) Run() []TraceLine {
	// the deadline of the call's context passes when the schedule says so (ctx.Err() is then context.DeadlineExceeded, as it is
	// for the context.WithTimeout contexts of the real wrappers)
	ctx := &manualDeadline{done: make(chan struct{})}
	cancel := ctx.expire
	defer cancel()
	opm := couchbase.NewAsyncOp(ctx)
	ch := make(chan error, 1)
	op := &fakeOp{emit: a.s.Emit}
	var cbFlag int32 // the callback runs exactly once: claimed by whoever gets here first (never wait for the other)
	claim := func() bool { return atomic.CompareAndSwapInt32(&cbFlag, 0, 1) }
	var cbErr error
	resolve := func() { opm.Resolve() }
	send := func() { ch <- cbErr }
	op.onCancel = func() {
		if claim() {
			cbErr = errCancel
			a.s.Emit(Ev{"ev": "Served", "outcome": "cancel"})
			resolve()
			send()
			a.s.Emit(Ev{"ev": "CallbackDone"})
		}
	}
	var lines []TraceLine
	started := false
	for i := range a.sch.Steps {
		l := a.sch.Steps[i].L
		tl := TraceLine{Run: a.sch.ID, I: i + 1, L: l}
		switch str(l["a"]) {
		case "Submit":
			ok, _ := l["ok"].(bool)
			a.s.Emit(Ev{"ev": "Submit", "ok": ok})
			a.s.Go("caller", func() {
				var err error
				if ok {
					err = opm.Wait(op, nil)
				} else {
					err = opm.Wait(nil, errServer)
				}
				res := "ok"
				if err != nil {
					if ok {
						res = "timeout"
					} else {
						res = "submit"
					}
				} else if e := <-ch; e != nil {
					if errors.Is(e, errCancel) {
						res = "cancel"
					} else {
						res = "fail"
					}
				}
				a.s.Emit(Ev{"ev": "Return", "result": res})
			})
		case "CbStart":
			o := str(l["o"])
			if claim() {
				started = true
				op.mu.Lock()
				op.onCancel = nil
				op.mu.Unlock()
				if o == "fail" {
					cbErr = errServer
				}
				a.s.Emit(Ev{"ev": "Served", "outcome": o})
			}
		case "CbResolve":
			if started {
				a.s.Go("cb1", resolve)
				a.s.WaitUntil(300*time.Millisecond, func(_ map[string]string, d map[string]bool) bool { return d["cb1"] })
			}
		case "CbSend":
			if started {
				a.s.Go("cb2", func() { send(); a.s.Emit(Ev{"ev": "CallbackDone"}) })
				a.s.WaitUntil(300*time.Millisecond, func(_ map[string]string, d map[string]bool) bool { return d["cb2"] })
			}
		case "Deadline":
			a.s.Emit(Ev{"ev": "Deadline"})
			cancel()
			a.s.Settle(time.Millisecond, 50*time.Millisecond)
		case "Quiesce":
			a.s.Settle(2*time.Millisecond, 200*time.Millisecond)
			a.s.Emit(Ev{"ev": "Quiesced"})
		}
		a.s.Settle(200*time.Microsecond, 20*time.Millisecond)
		tl.Evs = a.s.Drain()
		tl.Post = Ev{"up": true}
		lines = append(lines, tl)
	}
	return lines
}
