package drivers

import (
	"encoding/json"
	"fmt"
	"sort"
	"strconv"
	"strings"
	"sync"
	"time"

	"github.com/Trendyol/go-dcp/config"
	"github.com/Trendyol/go-dcp/couchbase"
	"github.com/Trendyol/go-dcp/helpers"
	"github.com/Trendyol/go-dcp/membership"
	"github.com/asaskevich/EventBus"

	"verifharness/riga"
	"verifharness/sched"
	"verifharness/simnode"
)

// MemberCBRun executes one schedule of MemberCB.tla: a group of real Couchbase memberships (couchbase.NewCBMembership over
// real couchbase.NewClient connections) sharing one simulated bucket. Every instance talks to its own front-end of the
// bucket, so that each key-value request can be held and released per instance: the labels MonGet / MonDocs / MonCas
// release the requests of one monitor() round in turn. The background loops of the memberships sleep for an hour
// (heartbeatInterval, rebalanceDelay); rounds are run through the verif exports.
type MemberCBRun struct {
	sch    *Schedule
	s      *sched.Sched
	store  *simnode.Store
	inst   map[int]*cbInst
	gateOn map[int]bool
	monOn  map[int]bool
	mu     sync.Mutex
	lines  []TraceLine
}

type cbInst struct {
	node   *simnode.Node
	client couchbase.Client
	m      membership.Membership
	bus    EventBus.Bus
	id     string
	index  string
	dead   bool
}

func NewMemberCBRun(sch *Schedule) *MemberCBRun {
	riga.QuietLog()
	r := &MemberCBRun{sch: sch, s: sched.New(), store: simnode.NewStore(), inst: map[int]*cbInst{}, gateOn: map[int]bool{}, monOn: map[int]bool{}}
	r.store.Gate = func(member int, op string, key string) {
		r.mu.Lock()
		on := r.gateOn[member]
		r.mu.Unlock()
		if !on {
			return
		}
		kind := "doc"
		if strings.HasSuffix(key, ":all") {
			kind = "index"
		}
		if op != "get" && kind == "doc" {
			return // the instance's own heart-beat document: written by register() and heartbeat(), never held
		}
		r.s.At("kv", fmt.Sprintf("%d:%s:%s", member, op, kind), nil)
	}
	return r
}

func (r *MemberCBRun) setGate(i int, on bool) {
	r.mu.Lock()
	r.gateOn[i] = on
	r.mu.Unlock()
}

func (r *MemberCBRun) parkedOf(i int, suffix string) []string {
	var l []string
	pre := "lib:kv:" + strconv.Itoa(i) + ":"
	for th := range r.s.Parked() {
		if strings.HasPrefix(th, pre) && strings.Contains(th, suffix) {
			l = append(l, th)
		}
	}
	sort.Strings(l)
	return l
}

func (r *MemberCBRun) waitParked(i int, suffix string, n int) bool {
	pre := "lib:kv:" + strconv.Itoa(i) + ":"
	return r.s.WaitUntil(stepTimeout, func(p map[string]string, d map[string]bool) bool {
		c := 0
		for th := range p {
			if strings.HasPrefix(th, pre) && strings.Contains(th, suffix) {
				c++
			}
		}
		return c >= n || d["mon"+strconv.Itoa(i)]
	})
}

func (r *MemberCBRun) join(i int) string {
	node := simnode.Start("b1", 4)
	node.Handler = r.store.Handler(i)
	cfg := &config.Dcp{Hosts: []string{fmt.Sprintf("http://127.0.0.1:%d", node.HTTPPort())}, Username: "user", Password: "password", BucketName: "b1"}
	cfg.Dcp.Group.Name = "g"
	cfg.ApplyDefaults()
	cfg.Dcp.Group.Membership.RebalanceDelay = time.Hour
	cfg.Dcp.Group.Membership.Config = map[string]string{
		config.CouchbaseMembershipHeartbeatIntervalConfig: "1h", config.CouchbaseMembershipMonitorIntervalConfig: "1h",
		config.CouchbaseMembershipHeartbeatToleranceConfig: "1m", config.CouchbaseMembershipTimeoutConfig: "20s",
	}
	cl := couchbase.NewClient(cfg)
	if err := cl.Connect(); err != nil {
		return "connect: " + err.Error()
	}
	bus := EventBus.New()
	in := &cbInst{node: node, client: cl, bus: bus}
	_ = bus.SubscribeAsync(helpers.MembershipChangedBusEventName, func(m *membership.Model) {
		r.s.Emit(Ev{"ev": "Announce", "i": i, "n": m.MemberNumber, "t": m.TotalMembers})
	}, true)
	r.setGate(i, false)
	in.m = couchbase.NewCBMembership(cfg, cl, bus)
	in.id, in.index = couchbase.VerifMembershipKeys(in.m)
	r.inst[i] = in
	r.setGate(i, true)
	r.s.Emit(Ev{"ev": "Joined", "i": i})
	return ""
}

// age rewrites the heart-beat document of instance i on the server as if its last heart-beat were three hours old.
func (r *MemberCBRun) age(i int) string {
	in := r.inst[i]
	body, ok := r.store.Get(in.id)
	if !ok {
		return "no document"
	}
	var d map[string]any
	dec := json.NewDecoder(strings.NewReader(string(body)))
	dec.UseNumber()
	if err := dec.Decode(&d); err != nil {
		return "bad document: " + err.Error()
	}
	hb, _ := d["heartbeatTime"].(json.Number).Int64()
	d["heartbeatTime"] = json.Number(strconv.FormatInt(hb-int64(3*time.Hour), 10))
	b, _ := json.Marshal(d)
	r.store.SetBody(in.id, b)
	return ""
}

func (r *MemberCBRun) exec(l map[string]any) string {
	a := str(l["a"])
	i := num(l["i"])
	in := r.inst[i]
	if a != "Join" && a != "Stable" && in == nil {
		return "no such instance"
	}
	th := "mon" + strconv.Itoa(i)
	switch a {
	case "Join":
		if in != nil {
			return "already joined"
		}
		return r.join(i)
	case "Die":
		in.dead = true
		in.m.Close()
		r.s.Emit(Ev{"ev": "Died", "i": i})
	case "Age":
		if msg := r.age(i); msg != "" {
			return msg
		}
		r.s.Emit(Ev{"ev": "Gone", "i": i})
	case "Expire":
		_, fresh := r.docState(i)
		r.store.Delete(in.id)
		if fresh {
			r.s.Emit(Ev{"ev": "Gone", "i": i})
		}
	case "Heartbeat":
		couchbase.VerifMembershipHeartbeat(in.m)
	case "MonGet":
		if len(r.parkedOf(i, ":get:index")) == 0 {
			if r.monOn[i] && !r.s.IsDone(th) {
				return "a round is in flight elsewhere"
			}
			r.monOn[i] = true
			m := in.m
			r.s.Go(th, func() { couchbase.VerifMembershipMonitor(m) })
			if !r.waitParked(i, ":get:index", 1) {
				return "monitor did not read the index"
			}
		}
		for _, p := range r.parkedOf(i, ":get:index") {
			r.s.Release(p, nil)
		}
		// the instance reads follow (or the round ends: an empty index)
		r.s.WaitUntil(stepTimeout, func(p map[string]string, d map[string]bool) bool {
			for k := range p {
				if strings.HasPrefix(k, "lib:kv:"+strconv.Itoa(i)+":get:doc") {
					return true
				}
			}
			return d[th]
		})
		r.s.Settle(2*time.Millisecond, 40*time.Millisecond)
	case "MonDocs":
		if len(r.parkedOf(i, ":get:doc")) == 0 {
			return "no instance reads in flight"
		}
		// the reads of a round are issued by one goroutine each: release them as they arrive until the round goes on
		// (the index write) or ends (nothing changed)
		for dl := time.Now().Add(stepTimeout); time.Now().Before(dl); {
			for _, p := range r.parkedOf(i, ":get:doc") {
				r.s.Release(p, nil)
			}
			if r.s.WaitUntil(3*time.Millisecond, func(p map[string]string, d map[string]bool) bool {
				for k := range p {
					if strings.HasPrefix(k, "lib:kv:"+strconv.Itoa(i)+":mutate:index") {
						return true
					}
				}
				return d[th]
			}) {
				break
			}
		}
	case "MonCas":
		ps := r.parkedOf(i, ":mutate:index")
		if len(ps) == 0 {
			return "no index write in flight"
		}
		for _, p := range ps {
			r.s.Release(p, nil)
		}
		r.s.WaitUntil(stepTimeout, func(p map[string]string, d map[string]bool) bool {
			for k := range p {
				if strings.HasPrefix(k, "lib:kv:"+strconv.Itoa(i)+":get:index") {
					return true
				}
			}
			return d[th]
		})
		if msg, died := r.s.Died(th); died {
			r.s.Emit(Ev{"ev": "Crashed", "i": i, "msg": msg})
		}
		r.s.Settle(2*time.Millisecond, 40*time.Millisecond) // the bus delivers the announcement asynchronously
	case "Stable":
		r.s.Settle(2*time.Millisecond, 40*time.Millisecond)
		r.s.Emit(Ev{"ev": "Stable"})
	default:
		return "unknown label " + a
	}
	return ""
}

func (r *MemberCBRun) docState(i int) (string, bool) {
	in := r.inst[i]
	if in == nil {
		return "none", false
	}
	body, ok := r.store.Get(in.id)
	if !ok {
		return "none", false
	}
	var d struct {
		HeartbeatTime int64 `json:"heartbeatTime"`
	}
	_ = json.Unmarshal(body, &d)
	if time.Now().UnixNano()-d.HeartbeatTime < int64(time.Hour) {
		return "fresh", true
	}
	return "stale", false
}

// post is the projection the specification predicts: index contents in join order, state of every heart-beat document,
// where every instance's monitor round stands.
func (r *MemberCBRun) post() Ev {
	idx := []any{}
	var indexKey string
	for _, in := range r.inst {
		indexKey = in.index
	}
	if body, ok := r.store.Get(indexKey); ok && indexKey != "" {
		m := map[string]int64{}
		_ = json.Unmarshal(body, &m)
		type kv struct {
			i int
			t int64
		}
		var l []kv
		for i, in := range r.inst {
			if t, ok := m[in.id]; ok {
				l = append(l, kv{i, t})
			}
		}
		sort.Slice(l, func(a, b int) bool { return l[a].t < l[b].t })
		for _, x := range l {
			idx = append(idx, x.i)
		}
	}
	n := num(r.sch.Cfg["N"])
	docs, pcs := make([]any, n), make([]any, n)
	for i := 1; i <= n; i++ {
		docs[i-1], _ = r.docState(i)
		pc := "idle"
		switch {
		case len(r.parkedOf(i, ":get:doc")) > 0:
			pc = "got"
		case len(r.parkedOf(i, ":mutate:index")) > 0:
			pc = "read"
		case len(r.parkedOf(i, ":get:index")) > 0:
			pc = "retry"
		}
		pcs[i-1] = pc
	}
	return Ev{"index": idx, "docs": docs, "pc": pcs}
}

func (r *MemberCBRun) Run() []TraceLine {
	for k := range r.sch.Steps {
		st := &r.sch.Steps[k]
		if OnStep != nil {
			OnStep(true, k+1, nil)
		}
		tl := TraceLine{Run: r.sch.ID, I: k + 1, L: st.L}
		if msg := r.exec(st.L); msg != "" {
			tl.Skipped = msg
		} else if st.Post != nil {
			// the event bus delivers an announcement on a goroutine of its own: give the predicted events time to arrive
			want := len(st.Evs)
			r.s.WaitCond(stepTimeout, func(_ map[string]string, _ map[string]bool, nev int) bool { return nev >= want })
		}
		tl.Evs = r.s.Drain()
		tl.Post = r.post()
		if tl.Skipped == "" && st.Post != nil {
			tl.Diff = DiffStep(*st, tl)
		}
		r.lines = append(r.lines, tl)
		if OnStep != nil {
			OnStep(false, k+1, &r.lines[len(r.lines)-1])
		}
	}
	// let whatever is still held return (the process of this run is discarded)
	for i := range r.inst {
		r.setGate(i, false)
	}
	for th := range r.s.Parked() {
		r.s.Release(th, nil)
	}
	r.s.WaitUntil(3*time.Second, func(p map[string]string, d map[string]bool) bool {
		for i, on := range r.monOn {
			if on && !d["mon"+strconv.Itoa(i)] {
				return false
			}
		}
		return len(p) == 0
	})
	for _, in := range r.inst {
		if !in.dead {
			in.m.Close()
		}
		in.client.Close()
	}
	return r.lines
}
