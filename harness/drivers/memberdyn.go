package drivers

import (
	"bytes"
	"fmt"
	"net"
	"net/http"
	"strconv"
	"time"

	"github.com/Trendyol/go-dcp/api"
	"github.com/Trendyol/go-dcp/config"
	"github.com/Trendyol/go-dcp/couchbase"
	"github.com/Trendyol/go-dcp/helpers"
	"github.com/Trendyol/go-dcp/membership"
	"github.com/Trendyol/go-dcp/models"
	"github.com/Trendyol/go-dcp/stream"
	"github.com/Trendyol/go-dcp/wrapper"
	"github.com/asaskevich/EventBus"
	"github.com/prometheus/client_golang/prometheus"

	"verifharness/riga"
	"verifharness/sched"
)

// MemberDynRun executes one behaviour of MemberDyn.tla: every instance is a real api.NewAPI server (PUT /membership/info over HTTP
// on a local port), a real event bus and a real stream.NewVBucketDiscovery with membership type "dynamic" on that bus. The
// orchestrator is the schedule. Observed: Joined, Requested (before the HTTP call), Announce (a subscriber of the instance's bus),
// Info (what VBucketDiscovery.Get returns, with the numbering its metric shows), Settled / Stable (the environment's statements).
type MemberDynRun struct {
	sch   *Schedule
	s     *sched.Sched
	inst  map[int]*dynInst
	lines []TraceLine
}

type dynInst struct {
	bus     EventBus.Bus
	api     api.API
	vd      stream.VBucketDiscovery
	port    int
	told    bool // a numbering was requested
	getting bool // a Get call was started (it may still be blocked)
}

func NewMemberDynRun(sch *Schedule) *MemberDynRun {
	riga.QuietLog()
	return &MemberDynRun{sch: sch, s: sched.New(), inst: map[int]*dynInst{}}
}

// a stream that is open and does nothing (the API only asks IsOpen / Rebalance / GetOffsets of it)
type nopStream struct{}

func (nopStream) Open()      {}
func (nopStream) Rebalance() {}
func (nopStream) Save()      {}
func (nopStream) Close(bool) {}
func (nopStream) GetOffsets() (*wrapper.ConcurrentSwissMap[uint16, *models.Offset], *wrapper.ConcurrentSwissMap[uint16, bool], bool) {
	return nil, nil, false
}
func (nopStream) GetObservers() *wrapper.ConcurrentSwissMap[uint16, couchbase.Observer] { return nil }
func (nopStream) GetMetric() (*stream.Metric, int32)                                    { return &stream.Metric{}, 0 }
func (nopStream) UnmarkDirtyOffsets()                                                   {}
func (nopStream) MarkDirtyOffsets(map[uint16]bool)                                      {}
func (nopStream) GetCheckpointMetric() *stream.CheckpointMetric                         { return &stream.CheckpointMetric{} }
func (nopStream) IsOpen() bool                                                          { return true }

func freePort() int {
	l, err := net.Listen("tcp", "127.0.0.1:0")
	if err != nil {
		return 0
	}
	defer l.Close()
	return l.Addr().(*net.TCPAddr).Port
}

func (r *MemberDynRun) start(i int) string {
	nvb := num(r.sch.Cfg["NVB"])
	cfg := &config.Dcp{}
	cfg.Dcp.Group.Name = "g" + strconv.Itoa(i)
	cfg.ApplyDefaults()
	cfg.Dcp.Group.Membership.Type = membership.DynamicMembershipType
	cfg.HealthCheck.Disabled = true
	cfg.API.Port = freePort()
	bus := EventBus.New()
	in := &dynInst{bus: bus, port: cfg.API.Port}
	_ = bus.SubscribeAsync(helpers.MembershipChangedBusEventName, func(m *membership.Model) {
		r.s.Emit(Ev{"ev": "Announce", "i": i, "n": m.MemberNumber, "t": m.TotalMembers})
	}, true)
	in.vd = stream.NewVBucketDiscovery(nil, cfg, nvb, bus)
	// (every instance is a process of its own in production: each gets a metrics registry of its own here)
	prometheus.DefaultRegisterer = prometheus.NewRegistry()
	in.api = api.NewAPI(cfg, nil, nopStream{}, nil, nil, bus)
	go in.api.Listen()
	for dl := time.Now().Add(5 * time.Second); ; {
		c, err := net.DialTimeout("tcp", fmt.Sprintf("127.0.0.1:%d", in.port), 200*time.Millisecond)
		if err == nil {
			c.Close()
			break
		}
		if time.Now().After(dl) {
			return "the API does not listen: " + err.Error()
		}
		time.Sleep(5 * time.Millisecond)
	}
	r.inst[i] = in
	r.s.Emit(Ev{"ev": "Joined", "i": i})
	return ""
}

func (r *MemberDynRun) get(i int, in *dynInst) {
	th := "get" + strconv.Itoa(i)
	r.s.Go(th, func() {
		l := in.vd.Get()
		m := in.vd.GetMetric()
		lo, hi := -1, -1
		if len(l) > 0 {
			lo, hi = int(l[0]), int(l[len(l)-1])
		}
		r.s.Emit(Ev{"ev": "Info", "i": i, "n": m.MemberNumber, "t": m.TotalMembers, "lo": lo, "hi": hi})
	})
}

func (r *MemberDynRun) exec(l map[string]any) string {
	a := str(l["a"])
	i := num(l["i"])
	in := r.inst[i]
	if (a == "Put" || a == "Get") && in == nil {
		return "no such instance"
	}
	switch a {
	case "Start":
		if in != nil {
			return "already started"
		}
		return r.start(i)
	case "Put":
		n, t := num(l["n"]), num(l["t"])
		r.s.Emit(Ev{"ev": "Requested", "i": i, "n": n, "t": t})
		body := []byte(fmt.Sprintf(`{"memberNumber":%d,"totalMembers":%d}`, n, t))
		req, _ := http.NewRequest(http.MethodPut, fmt.Sprintf("http://127.0.0.1:%d/membership/info", in.port), bytes.NewReader(body))
		req.Header.Set("Content-Type", "application/json")
		resp, err := (&http.Client{Timeout: 5 * time.Second}).Do(req)
		if err != nil {
			return "PUT failed: " + err.Error()
		}
		resp.Body.Close()
		if resp.StatusCode != 200 {
			return "PUT answered " + resp.Status
		}
		in.told = true
		in.bus.WaitAsync() // the bus delivers on goroutines of its own: the request counts as served when they are done
	case "Get":
		th := "get" + strconv.Itoa(i)
		if in.getting && !r.s.IsDone(th) {
			return "a Get is blocked already"
		}
		in.getting = true
		r.get(i, in)
		if in.told {
			r.s.WaitUntil(stepTimeout, func(_ map[string]string, d map[string]bool) bool { return d[th] })
		} else {
			time.Sleep(20 * time.Millisecond) // (nothing was requested yet: the call must stay blocked)
		}
	case "Settled":
		r.s.Emit(Ev{"ev": "Settled"})
	case "Stable":
		r.s.Emit(Ev{"ev": "Stable"})
	default:
		return "unknown label " + a
	}
	return ""
}

func (r *MemberDynRun) post() Ev {
	n := num(r.sch.Cfg["N"])
	wait := make([]any, n)
	for i := 1; i <= n; i++ {
		wait[i-1] = false
		if in := r.inst[i]; in != nil {
			wait[i-1] = in.getting && !r.s.IsDone("get"+strconv.Itoa(i))
		}
	}
	return Ev{"up": true, "wait": wait}
}

func (r *MemberDynRun) Run() []TraceLine {
	for k := range r.sch.Steps {
		st := &r.sch.Steps[k]
		if OnStep != nil {
			OnStep(true, k+1, nil)
		}
		tl := TraceLine{Run: r.sch.ID, I: k + 1, L: st.L}
		if msg := r.exec(st.L); msg != "" {
			tl.Skipped = msg
		} else if st.Post != nil {
			want := len(st.Evs)
			r.s.WaitCond(stepTimeout, func(_ map[string]string, _ map[string]bool, nev int) bool { return nev >= want })
			r.s.Settle(2*time.Millisecond, 30*time.Millisecond)
		}
		tl.Evs = r.s.Drain()
		tl.Post = r.post()
		if tl.Skipped == "" && st.Post != nil {
			tl.Diff = DiffStep(*st, tl)
		}
		r.lines = append(r.lines, tl)
		if OnStep != nil {
			OnStep(false, k+1, &r.lines[len(r.lines)-1])
		}
	}
	for _, in := range r.inst {
		go in.api.Shutdown()
	}
	return r.lines
}
