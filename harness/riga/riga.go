// Package riga is rig A: the real stream / observer / checkpoint code of go-dcp around a fake
// couchbase.Client, a fake metadata.Metadata ("custom backend"), a fake consumer and a recording
// event handler. Every call that leaves the library is a gate of the scheduler and an observable
// event of the trace. vBucket ids in events use the spec's numbering (Go vbID + 1).
package riga

import (
	"errors"
	"fmt"
	"reflect"
	"sort"
	"strconv"
	"strings"
	"sync"
	"sync/atomic"
	"time"
	"unsafe"

	dcp "github.com/Trendyol/go-dcp"
	"github.com/Trendyol/go-dcp/config"
	"github.com/Trendyol/go-dcp/couchbase"
	"github.com/Trendyol/go-dcp/helpers"
	"github.com/Trendyol/go-dcp/logger"
	"github.com/Trendyol/go-dcp/membership"
	"github.com/Trendyol/go-dcp/metric"
	"github.com/Trendyol/go-dcp/models"
	"github.com/Trendyol/go-dcp/stream"
	"github.com/Trendyol/go-dcp/vhook"
	"github.com/Trendyol/go-dcp/wrapper"
	"github.com/asaskevich/EventBus"
	"github.com/couchbase/gocbcore/v10"
	"github.com/prometheus/client_golang/prometheus"
	dto "github.com/prometheus/client_model/go"
	"github.com/sirupsen/logrus"

	"github.com/couchbase/gocbcore/v10/memd"

	"verifharness/sched"
	"verifharness/simnode"
)

type Ev = sched.Ev

// ---- encoding shared with the TLA+ side -------------------------------------------------

func Enc(u uint64) int64 {
	if u == helpers.MaxIntValue {
		return -1
	}
	return int64(u)
}

func Dec(i int64) uint64 {
	if i < 0 {
		return helpers.MaxIntValue
	}
	return uint64(i)
}

func OffEv(o *models.Offset) Ev {
	if o == nil || o.SnapshotMarker == nil {
		return NoOff()
	}
	return Ev{"uuid": Enc(uint64(o.VbUUID)), "seq": Enc(o.SeqNo), "ss": Enc(o.StartSeqNo), "se": Enc(o.EndSeqNo)}
}

func DocEv(d *models.CheckpointDocument) Ev {
	if d == nil || d.Checkpoint == nil || d.Checkpoint.Snapshot == nil {
		return NoOff()
	}
	c := d.Checkpoint
	return Ev{"uuid": Enc(c.VbUUID), "seq": Enc(c.SeqNo), "ss": Enc(c.Snapshot.StartSeqNo), "se": Enc(c.Snapshot.EndSeqNo)}
}

func NoOff() Ev { return Ev{"uuid": int64(-1), "seq": int64(-1), "ss": int64(-1), "se": int64(-1)} }

func fakeSnapshot() *gocbcore.ConfigSnapshot {
	cs := &gocbcore.ConfigSnapshot{}
	f := reflect.ValueOf(cs).Elem().Field(0)
	st := reflect.New(f.Type().Elem())
	reflect.NewAt(f.Type(), unsafe.Pointer(f.UnsafeAddr())).Elem().Set(st)
	return cs
}

// ---- the durable world: survives a crash of the library process ---------------------------

type World struct {
	mu       sync.Mutex
	NVB      int
	Store    map[uint16]*models.CheckpointDocument
	High     []uint64                   // per Go vbID
	CollHigh []uint64                   // highest seqno of a document of the streamed collection (what a collection-aware query answers)
	FoLog    [][]gocbcore.FailoverEntry // per Go vbID, newest first
}

func NewWorld(nvb int) *World {
	w := &World{NVB: nvb, Store: map[uint16]*models.CheckpointDocument{}, High: make([]uint64, nvb), FoLog: make([][]gocbcore.FailoverEntry, nvb)}
	return w
}

func (w *World) SetHigh(vb int, h uint64) {
	w.mu.Lock()
	w.High[vb] = h
	w.mu.Unlock()
}

func (w *World) SetCollHigh(vb int, h uint64) {
	w.mu.Lock()
	for len(w.CollHigh) <= vb {
		w.CollHigh = append(w.CollHigh, 0)
	}
	w.CollHigh[vb] = h
	w.mu.Unlock()
}

func (w *World) SetFo(vb int, uuid uint64) {
	w.mu.Lock()
	w.FoLog[vb] = append([]gocbcore.FailoverEntry{{VbUUID: gocbcore.VbUUID(uuid), SeqNo: 0}}, w.FoLog[vb]...)
	w.mu.Unlock()
}

func (w *World) StoreEv() []any {
	w.mu.Lock()
	defer w.mu.Unlock()
	r := make([]any, w.NVB)
	for i := 0; i < w.NVB; i++ {
		r[i] = DocEv(w.Store[uint16(i)])
	}
	return r
}

// ---- results the driver hands to gates ------------------------------------------------------

type OpenResult struct {
	Err      error
	Uuid     uint64
	Rollback bool   // the stream was opened after a server-requested rollback
	F        uint64 // position the client had reached (catch-up bound) when Rollback
}

// ---- fake client ---------------------------------------------------------------------------------

type Client struct {
	r   *Rig
	mu  sync.Mutex
	Obs map[uint16]couchbase.Observer
}

func (c *Client) Ping() (*models.PingResult, error) {
	c.r.S.Emit(Ev{"ev": "Ping"})
	v := c.r.S.At("Ping", "", nil)
	if err, ok := v.(error); ok && err != nil {
		c.r.S.Emit(Ev{"ev": "PingRet", "ok": false})
		return nil, err
	}
	c.r.S.Emit(Ev{"ev": "PingRet", "ok": true})
	return &models.PingResult{MemdEndpoint: "m", MgmtEndpoint: "g"}, nil
}

// NewBareClient is a fake client on its own scheduler (health-check driver).
func NewBareClient(s *sched.Sched) *Client {
	return &Client{r: &Rig{S: s, W: NewWorld(1)}, Obs: map[uint16]couchbase.Observer{}}
}
func (c *Client) GetAgent() *gocbcore.Agent     { return nil }
func (c *Client) GetMetaAgent() *gocbcore.Agent { return nil }
func (c *Client) Connect() error                { return nil }
func (c *Client) Close()                        { c.r.S.Emit(Ev{"ev": "ClientClose"}) }
func (c *Client) DcpConnect(bool, bool) error   { return nil }
func (c *Client) DcpClose()                     { c.r.S.Emit(Ev{"ev": "DcpClose"}) }
func (c *Client) GetNumVBuckets() int           { return c.r.W.NVB }
func (c *Client) GetAgentQueues() []*models.AgentQueue {
	return nil
}

func (c *Client) GetVBucketSeqNos(collectionAware bool) (*wrapper.ConcurrentSwissMap[uint16, uint64], error) {
	if atomic.LoadInt32(&c.r.inHook) > 0 {
		// asked by a scrape that a lifecycle callback issues: answered at once, not a step of the schedule
		m := wrapper.CreateConcurrentSwissMap[uint16, uint64](16)
		c.r.W.mu.Lock()
		for i, h := range c.r.W.High {
			m.Store(uint16(i), h)
		}
		c.r.W.mu.Unlock()
		return m, nil
	}
	c.r.S.Emit(Ev{"ev": "SeqNosReq"})
	v := c.r.S.At("GetVBucketSeqNos", "", nil)
	hi := make([]any, c.r.W.NVB)
	m := wrapper.CreateConcurrentSwissMap[uint16, uint64](16)
	scrape := c.r.S.Thread() == "scr" // the metric collector asks, not checkpoint.Load
	miss, hasMiss := v.(MissingVb)
	c.r.W.mu.Lock()
	for i, h := range c.r.W.High {
		if hasMiss && int(miss) == i {
			hi[i] = Enc(0) // no node reported this vBucket: the answer has no entry for it
			continue
		}
		hi[i] = Enc(h) // (the event reports the vBuckets' high seqnos as they are)
		if collectionAware && !scrape && i < len(c.r.W.CollHigh) {
			// a collection-aware query is answered with the high seqno of the streamed collection: system and seqno-advanced
			// events at the end of a vBucket's history are not part of it (the library asks this way for the lag metric only)
			h = c.r.W.CollHigh[i]
		}
		m.Store(uint16(i), h)
	}
	c.r.W.mu.Unlock()
	latest := c.r.Cfg.Checkpoint.AutoReset == "latest"
	if err, ok := v.(error); ok && err != nil {
		c.r.S.Emit(Ev{"ev": "SeqNos", "ok": false, "high": hi, "latest": latest, "partial": c.r.Partial, "scrape": scrape})
		return nil, err
	}
	c.r.S.Emit(Ev{"ev": "SeqNos", "ok": true, "high": hi, "latest": latest, "partial": c.r.Partial, "scrape": scrape})
	return m, nil
}

// MissingVb releases a GetVBucketSeqNos call with an answer that lacks the entry of one vBucket.
type MissingVb int

func (c *Client) GetFailOverLogs(vb uint16) ([]gocbcore.FailoverEntry, error) {
	v := c.r.S.At("GetFailOverLogs", "", nil)
	if err, ok := v.(error); ok && err != nil {
		c.r.S.Emit(Ev{"ev": "Fail", "what": "FoLog"})
		return nil, err
	}
	c.r.W.mu.Lock()
	defer c.r.W.mu.Unlock()
	return c.r.W.FoLog[vb], nil
}

func (c *Client) OpenStream(vb uint16, _ map[uint32]string, o *models.Offset, ob couchbase.Observer) error {
	sv := int(vb) + 1
	c.r.S.Emit(Ev{"ev": "OpenReq", "vb": sv, "off": OffEv(o), "end": Enc(o.LatestSeqNo)})
	v := c.r.S.At("OpenStream", strconv.Itoa(sv), nil)
	res, _ := v.(OpenResult)
	if res.Err != nil {
		c.r.S.Emit(Ev{"ev": "OpenRet", "vb": sv, "ok": false, "uuid": 0, "rollback": false, "f": 0})
		return res.Err
	}
	// what client.OpenStream's completion callback does (client.go): SetVbUUID / SetCatchup
	ob.SetVbUUID(gocbcore.VbUUID(res.Uuid))
	if res.Rollback {
		ob.SetCatchup(gocbcore.SeqNo(res.F))
	}
	c.mu.Lock()
	c.Obs[vb] = ob
	c.mu.Unlock()
	c.r.S.Emit(Ev{"ev": "OpenRet", "vb": sv, "ok": true, "uuid": Enc(res.Uuid), "rollback": res.Rollback, "f": Enc(res.F)})
	return nil
}

func (c *Client) CloseStream(vb uint16) error {
	sv := int(vb) + 1
	c.r.S.Emit(Ev{"ev": "CloseReq", "vb": sv})
	v := c.r.S.At("CloseStream", strconv.Itoa(sv), nil)
	if err, ok := v.(error); ok && err != nil {
		return err
	}
	return nil
}

func (c *Client) GetCollectionIDs(string, []string) (map[uint32]string, error) {
	return c.r.CollectionIDs, nil
}
func (c *Client) GetAgentConfigSnapshot() (*gocbcore.ConfigSnapshot, error) {
	return fakeSnapshot(), nil
}
func (c *Client) GetDcpAgentConfigSnapshot() (*gocbcore.ConfigSnapshot, error) {
	return fakeSnapshot(), nil
}

func (c *Client) Observer(vb uint16) couchbase.Observer {
	c.mu.Lock()
	defer c.mu.Unlock()
	return c.Obs[vb]
}

// ---- fake metadata: the "custom backend" ---------------------------------------------------------

type saveArgs struct {
	state map[uint16]*models.CheckpointDocument
	dirty map[uint16]bool
}

type Meta struct {
	r        *Rig
	mu       sync.Mutex
	inflight map[string]*saveArgs // thread -> arguments of the Save call parked in the store
	session  []uint16             // vBuckets handed to the last Load call
	loads    int                  // Load calls so far: every Open() makes a new checkpoint object (contexts carry its Save as Commit)
}

// Session numbers the stream sessions (one per metadata Load).
func (m *Meta) Session() int {
	m.mu.Lock()
	defer m.mu.Unlock()
	return m.loads
}

func (m *Meta) Save(state map[uint16]*models.CheckpointDocument, dirty map[uint16]bool, _ string) error {
	t := m.r.S.Thread()
	if t == "" {
		t = "periodic"
	}
	dump := make([]any, m.r.W.NVB)
	for i := 0; i < m.r.W.NVB; i++ {
		dump[i] = DocEv(state[uint16(i)])
	}
	ds := []int{}
	for vb, d := range dirty {
		if d {
			ds = append(ds, int(vb)+1)
		}
	}
	sort.Ints(ds)
	m.mu.Lock()
	m.inflight[t] = &saveArgs{state: state, dirty: dirty}
	var missing []int
	for _, vb := range m.session {
		if _, ok := state[vb]; !ok {
			missing = append(missing, int(vb)+1)
		}
	}
	m.mu.Unlock()
	if st := m.r.Stream(); len(missing) > 0 && st != nil && st.IsOpen() {
		// a backend that stores the state it is handed as a whole (metadata/file_metadata.go) would lose these checkpoints
		sort.Ints(missing)
		m.r.S.Emit(Ev{"ev": "SaveArgsPartial", "t": t, "missing": missing})
	}
	m.r.S.Emit(Ev{"ev": "SaveBegin", "t": t, "dump": dump, "dirty": ds})
	v := m.r.S.At("md.Save", "", nil)
	m.mu.Lock()
	delete(m.inflight, t)
	m.mu.Unlock()
	if err, ok := v.(error); ok && err != nil {
		m.r.S.Emit(Ev{"ev": "SaveEnd", "t": t, "ok": false})
		return err
	}
	m.r.S.Emit(Ev{"ev": "SaveEnd", "t": t, "ok": true})
	return nil
}

// Write makes the checkpoint of one vBucket of the in-flight save of thread t durable
// (what a per-vBucket backend like the Couchbase one does for every dirty vBucket).
func (m *Meta) Write(t string, vb uint16) bool {
	m.mu.Lock()
	a := m.inflight[t]
	m.mu.Unlock()
	if a == nil || !a.dirty[vb] || a.state[vb] == nil {
		return false
	}
	cp := *a.state[vb].Checkpoint
	sn := *cp.Snapshot
	cp.Snapshot = &sn
	doc := &models.CheckpointDocument{Checkpoint: &cp, BucketUUID: a.state[vb].BucketUUID}
	m.r.W.mu.Lock()
	m.r.W.Store[vb] = doc
	m.r.W.mu.Unlock()
	m.r.S.Emit(Ev{"ev": "StoreWrite", "t": t, "vb": int(vb) + 1, "off": DocEv(doc)})
	return true
}

// DirtyOf lists the vBuckets the in-flight save of thread t would write.
func (m *Meta) DirtyOf(t string) []uint16 {
	m.mu.Lock()
	defer m.mu.Unlock()
	a := m.inflight[t]
	if a == nil {
		return nil
	}
	var l []uint16
	for vb, d := range a.dirty {
		if d && a.state[vb] != nil {
			l = append(l, vb)
		}
	}
	sort.Slice(l, func(i, j int) bool { return l[i] < l[j] })
	return l
}

func (m *Meta) Load(vbs []uint16, b string) (*wrapper.ConcurrentSwissMap[uint16, *models.CheckpointDocument], bool, error) {
	l := make([]int, 0, len(vbs))
	for _, v := range vbs {
		l = append(l, int(v)+1)
	}
	sort.Ints(l)
	m.mu.Lock()
	m.session = append([]uint16{}, vbs...) // the vBuckets of the session that begins
	m.loads++
	m.mu.Unlock()
	m.r.S.Emit(Ev{"ev": "Load", "vbs": l})
	v := m.r.S.At("md.Load", "", nil)
	if err, ok := v.(error); ok && err != nil {
		m.r.S.Emit(Ev{"ev": "Fail", "what": "Load"})
		return nil, false, err
	}
	res := wrapper.CreateConcurrentSwissMap[uint16, *models.CheckpointDocument](16)
	ex := false
	partial, _ := v.(string)
	m.r.W.mu.Lock()
	defer m.r.W.mu.Unlock()
	any := false
	for _, vb := range vbs {
		if _, ok := m.r.W.Store[vb]; ok {
			any = true
		}
	}
	m.r.Partial = partial == "partial"
	for _, vb := range vbs {
		if d, ok := m.r.W.Store[vb]; ok {
			cp := *d.Checkpoint
			sn := *cp.Snapshot
			cp.Snapshot = &sn
			res.Store(vb, &models.CheckpointDocument{Checkpoint: &cp, BucketUUID: d.BucketUUID})
			ex = true
		} else if !(partial == "partial" && any) {
			// (a file-like backend that has a file returns only what is in it)
			res.Store(vb, models.NewEmptyCheckpointDocument(b))
		}
	}
	return res, ex, nil
}

func (m *Meta) Clear([]uint16) error { return nil }

// ---- fake consumer ---------------------------------------------------------------------------------

type Ctx struct {
	Vb   int // spec numbering
	Off  Ev
	C    *models.ListenerContext
	Sess int // stream session the context was handed out in
}

type Consumer struct {
	r    *Rig
	mu   sync.Mutex
	Ctxs []*Ctx
	Hold bool // park inside ConsumeEvent
	// the next TrackOffset call parks (the acknowledging goroutine is held between the position store and the dirty mark)
	HoldTrack atomic.Bool
}

func KeyClass(key []byte) string {
	s := string(key)
	if c, ok := keyClassOf[s]; ok {
		return c
	}
	return "?" + s
}

// concrete keys the drivers use for the key classes of the specification
var KeyOfClass = map[string]string{
	"user": "user-doc", "conn": helpers.Prefix + "grp:checkpoint:7", "txn": helpers.TxnPrefix + "abc",
	"partial": "_connector:cbg", "empty": "",
}
var keyClassOf = func() map[string]string {
	m := map[string]string{}
	for k, v := range KeyOfClass {
		m[v] = k
	}
	return m
}()

func (c *Consumer) ConsumeEvent(ctx *models.ListenerContext) {
	var e Ev
	var cx *Ctx
	switch v := ctx.Event.(type) {
	case models.DcpMutation:
		e = Ev{"ev": "Consume", "vb": int(v.VbID) + 1, "k": "mut", "q": Enc(v.SeqNo), "key": KeyClass(v.Key), "off": OffEv(v.Offset)}
		cx = &Ctx{Vb: int(v.VbID) + 1, Off: OffEv(v.Offset), C: ctx}
	case models.DcpDeletion:
		e = Ev{"ev": "Consume", "vb": int(v.VbID) + 1, "k": "del", "q": Enc(v.SeqNo), "key": KeyClass(v.Key), "off": OffEv(v.Offset)}
		cx = &Ctx{Vb: int(v.VbID) + 1, Off: OffEv(v.Offset), C: ctx}
	case models.DcpExpiration:
		e = Ev{"ev": "Consume", "vb": int(v.VbID) + 1, "k": "exp", "q": Enc(v.SeqNo), "key": KeyClass(v.Key), "off": OffEv(v.Offset)}
		cx = &Ctx{Vb: int(v.VbID) + 1, Off: OffEv(v.Offset), C: ctx}
	default:
		e = Ev{"ev": "Consume", "vb": 0, "k": fmt.Sprintf("%T", ctx.Event), "q": 0, "key": "?", "off": NoOff()}
		cx = &Ctx{C: ctx, Off: NoOff()}
	}
	cx.Sess = c.r.Meta.Session()
	c.mu.Lock()
	c.Ctxs = append(c.Ctxs, cx)
	hold := c.Hold
	c.mu.Unlock()
	c.r.S.Emit(e)
	if hold {
		c.r.S.At("consume", strconv.Itoa(cx.Vb), nil)
	}
}

// Commit returns the Commit function of the context handed out last in the current stream session (what a consumer that
// commits from its listener calls), nil if there is none.
func (c *Consumer) Commit() func() {
	sess := c.r.Meta.Session()
	c.mu.Lock()
	defer c.mu.Unlock()
	for i := len(c.Ctxs) - 1; i >= 0; i-- {
		if cx := c.Ctxs[i]; cx.Sess == sess && cx.C != nil && cx.C.Commit != nil {
			return cx.C.Commit
		}
	}
	return nil
}

func (c *Consumer) SetHold(h bool) {
	c.mu.Lock()
	c.Hold = h
	c.mu.Unlock()
}

func (c *Consumer) TrackOffset(vb uint16, o *models.Offset) {
	c.r.S.Emit(Ev{"ev": "Track", "vb": int(vb) + 1, "off": OffEv(o)})
	// user code may take any time here: setOffset has stored the position and has not marked it for saving yet
	if c.HoldTrack.CompareAndSwap(true, false) {
		c.r.S.At("track", "", nil)
	}
}

func (c *Consumer) Ctx(i int) *Ctx {
	c.mu.Lock()
	defer c.mu.Unlock()
	if i < 0 || i >= len(c.Ctxs) {
		return nil
	}
	return c.Ctxs[i]
}

// ---- recording event handler -------------------------------------------------------------------------

type Handler struct {
	r     *Rig
	first sync.Once
}

func (h *Handler) cb(n string) {
	h.r.S.Emit(Ev{"ev": "Callback", "name": n})
	if h.r.Opt.HoldCb && n == "AfterRebalanceEnd" {
		// the user's handler takes its time
		h.r.S.Emit(Ev{"ev": "CallbackHeld", "name": n})
		h.r.S.At("cb.hold", "", nil)
		h.r.S.Emit(Ev{"ev": "CallbackDone", "name": n})
	}
	if h.r.Opt.HookScrapes {
		h.r.S.Emit(Ev{"ev": "HookScrape", "name": n, "ok": h.r.HookScrape()})
	}
}
func (h *Handler) BeforeRebalanceStart() { h.cb("BeforeRebalanceStart") }
func (h *Handler) AfterRebalanceStart()  { h.cb("AfterRebalanceStart") }
func (h *Handler) BeforeRebalanceEnd()   { h.cb("BeforeRebalanceEnd") }
func (h *Handler) AfterRebalanceEnd()    { h.cb("AfterRebalanceEnd") }
func (h *Handler) BeforeStreamStart() {
	h.cb("BeforeStreamStart")
	// the membership in effect at start-up arrives over the bus, as from a membership backend
	h.first.Do(func() {
		if h.r.Opt.Membership != membership.StaticMembershipType {
			h.r.Bus.Publish(helpers.MembershipChangedBusEventName, &membership.Model{MemberNumber: h.r.Opt.Member, TotalMembers: h.r.Opt.Total})
		}
	})
}
func (h *Handler) AfterStreamStart() { h.cb("AfterStreamStart") }
func (h *Handler) BeforeStreamStop() { h.cb("BeforeStreamStop") }
func (h *Handler) AfterStreamStop()  { h.cb("AfterStreamStop") }

// ---- the rig ---------------------------------------------------------------------------------------------

type Options struct {
	AutoReset      string // "earliest" | "latest"
	Finite         bool
	Membership     string // "static" | "dynamic" | "kubernetesHa"
	Member, Total  int
	CheckpointAuto bool
	ReadOnly       bool   // metadata.readOnly
	HoldCb         bool   // the handler of AfterRebalanceEnd parks until released
	MetaCollection string // (couchbase metadata) the collection the connector is configured to keep its own documents in
	RmReal         bool   // rollback mitigation is the real polling object over a simulated cluster (else: the emulated replica table)
	HookScrapes    bool   // the event handler scrapes the metrics endpoint from inside every lifecycle callback
	SkipUntil      *time.Time
	Version        *couchbase.Version
}

type Rig struct {
	W             *World
	S             *sched.Sched
	Cfg           *config.Dcp
	Client        *Client
	Meta          *Meta
	Cons          *Consumer
	H             *Handler
	Bus           EventBus.Bus
	Dcp           dcp.Dcp
	StopCh        chan struct{}
	Timers        []*time.Timer // every rebalance timer the stream created, in order
	StoppedSeen   bool
	Partial       bool // the last metadata.Load answered like a file backend
	CollectionIDs map[uint32]string
	Opt           Options
	inHook        int32
	rmReal        couchbase.RollbackMitigation
	rmNode        *simnode.Node
	rmClient      couchbase.Client
	rmCfg         *config.Dcp
	obsMu         sync.Mutex
	obs           map[[2]int]obsAnswer
	RM            *couchbase.VerifRM // the replica table of rollback mitigation (real getMinSeqNo / IsOutdated / dispatch)
}

// RmSwitch turns the rollback-mitigation gate of the observers on or off (the observers read the flag of the shared
// configuration every time an event arrives).
//
// Two ways of feeding the gate: (RmReal = false) the replica table and reply handling of rollback_mitigation.go run over
// the reports the schedule supplies (couchbase.VerifNewRM: real IsOutdated / getMinSeqNo / dispatch); (RmReal = true) the
// REAL couchbase.NewRollbackMitigation polls OBSERVE_SEQNO over a real gocbcore agent against a simulated cluster
// (one node per copy) whose answers the schedule sets, watches its cluster map and dispatches into the stream.
func (r *Rig) RmSwitch(on bool, slots int) {
	r.Cfg.RollbackMitigation.Interval = 5 * time.Millisecond
	dispatch := func(vb uint16, seq gocbcore.SeqNo) {
		if st := r.Stream(); st != nil {
			stream.VerifDispatchPersistSeqNo(st, vb, seq)
		}
	}
	vbs := make([]uint16, r.W.NVB)
	for i := range vbs {
		vbs[i] = uint16(i)
	}
	switch {
	case r.Opt.RmReal && on && r.rmReal == nil:
		if err := r.startRealRM(vbs, slots, dispatch); err != nil {
			panic("cannot start the real rollback mitigation: " + err.Error())
		}
	case r.Opt.RmReal && !on && r.rmReal != nil:
		r.rmReal.Stop()
		r.rmReal = nil
	case !r.Opt.RmReal && on && r.RM == nil:
		r.RM = couchbase.VerifNewRM(vbs, slots, dispatch)
	}
	r.Cfg.RollbackMitigation.Disabled = !on
}

type obsAnswer struct{ uuid, seq uint64 }

func (r *Rig) startRealRM(vbs []uint16, slots int, dispatch func(uint16, gocbcore.SeqNo)) error {
	if r.rmNode == nil {
		node := simnode.StartN("b1", len(vbs), slots, slots-1)
		wire := simnode.NewWire(len(vbs))
		node.Handler = wire.Handler()
		r.obs = map[[2]int]obsAnswer{}
		node.Observe = func(nodeIdx int, vb uint16, _ []byte) (memd.StatusCode, []byte) {
			r.obsMu.Lock()
			a := r.obs[[2]int{int(vb), nodeIdx}]
			r.obsMu.Unlock()
			out := []byte{0, byte(vb >> 8), byte(vb)}
			for _, x := range []uint64{a.uuid, a.seq, a.seq} {
				for s := 56; s >= 0; s -= 8 {
					out = append(out, byte(x>>uint(s)))
				}
			}
			return memd.StatusSuccess, out
		}
		cfg := &config.Dcp{Hosts: []string{fmt.Sprintf("http://127.0.0.1:%d", node.HTTPPort())}, Username: "user", Password: "password", BucketName: "b1"}
		cfg.ApplyDefaults()
		cfg.RollbackMitigation.Interval = 5 * time.Millisecond
		cfg.RollbackMitigation.ConfigWatchInterval = 10 * time.Millisecond
		cl := couchbase.NewClient(cfg)
		if err := cl.Connect(); err != nil {
			return err
		}
		if err := cl.DcpConnect(true, false); err != nil {
			return err
		}
		r.rmNode, r.rmClient, r.rmCfg = node, cl, cfg
	}
	r.rmReal = couchbase.NewRollbackMitigation(r.rmClient, r.rmCfg, vbs, func(p *models.PersistSeqNo) { dispatch(p.VbID, p.SeqNo) })
	r.rmReal.Start()
	return nil
}

// RmReport: copy `slot` of vb answers OBSERVE_SEQNO with (uuid, seq) from now on / is fed to the emulated table.
func (r *Rig) RmReport(vb, slot int, uuid, seq uint64) bool {
	if r.Opt.RmReal {
		if r.rmNode == nil {
			return false
		}
		r.obsMu.Lock()
		r.obs[[2]int{vb, slot}] = obsAnswer{uuid, seq}
		r.obsMu.Unlock()
		time.Sleep(4 * r.rmCfg.RollbackMitigation.Interval) // a few polling rounds: the change is normally seen before the next one is made
		return true
	}
	if r.RM == nil {
		return false
	}
	r.RM.Report(uint16(vb), slot, gocbcore.VbUUID(uuid), gocbcore.SeqNo(seq))
	return true
}

// RmAbsent: the cluster map stops listing copy `slot` of vb.
func (r *Rig) RmAbsent(vb, slot int) bool {
	if r.Opt.RmReal {
		if r.rmNode == nil {
			return false
		}
		r.rmNode.Unlist(vb, slot)
		time.Sleep(3*r.rmCfg.RollbackMitigation.ConfigWatchInterval + 4*r.rmCfg.RollbackMitigation.Interval)
		return true
	}
	if r.RM == nil {
		return false
	}
	r.RM.Absent(uint16(vb), slot)
	return true
}

// Reap lets the callbacks that still wait at the gate of a discarded process return.
func (r *Rig) Reap() {
	if r.rmReal != nil {
		rm := r.rmReal
		r.rmReal = nil
		go rm.Stop()
	}
	if r.rmClient != nil {
		cl := r.rmClient
		r.rmClient = nil
		go func() { time.Sleep(200 * time.Millisecond); cl.DcpClose(); cl.Close() }()
	}
	r.Client.mu.Lock()
	defer r.Client.mu.Unlock()
	for _, ob := range r.Client.Obs {
		ob.Close()
	}
}

func (r *Rig) thr() []any {
	l := make([]any, r.W.NVB)
	for i := range l {
		l[i] = int64(0)
		if ob := r.Client.Observer(uint16(i)); ob != nil {
			l[i] = int64(ob.GetPersistSeqNo())
		}
	}
	return l
}

var logOnce sync.Once

// QuietLog installs a logger that prints nothing.
func QuietLog() {
	logOnce.Do(func() {
		l := logrus.New()
		l.SetLevel(logrus.PanicLevel)
		logger.Log = &logger.Loggers{Logrus: l}
	})
}

// Boot creates a fresh library "process" over the durable world.
func Boot(w *World, opt Options) *Rig {
	QuietLog()
	r := &Rig{W: w, S: sched.New(), Opt: opt, CollectionIDs: map[uint32]string{}}
	cfg := &config.Dcp{}
	cfg.ApplyDefaults()
	cfg.RollbackMitigation.Disabled = true
	cfg.Checkpoint.Type = "manual"
	if opt.CheckpointAuto {
		cfg.Checkpoint.Type = "auto"
		cfg.Checkpoint.Interval = time.Hour
	}
	if opt.AutoReset != "" {
		cfg.Checkpoint.AutoReset = opt.AutoReset
	}
	if opt.Finite {
		cfg.Dcp.Mode = config.DcpModeFinite
	}
	cfg.Metadata.ReadOnly = opt.ReadOnly
	if opt.MetaCollection != "" {
		// Couchbase metadata kept in a scope / collection of its own (the store itself is the rig's): what the library does with
		// reserved keys must not depend on where its own documents are configured to live
		cfg.Metadata.Config = map[string]string{config.CouchbaseMetadataScopeConfig: "connector", config.CouchbaseMetadataCollectionConfig: opt.MetaCollection}
	}
	cfg.Dcp.Listener.SkipUntil = opt.SkipUntil
	if opt.Membership == "" {
		opt.Membership = membership.KubernetesHaMembershipType
	}
	if opt.Member == 0 {
		opt.Member, opt.Total = 1, 1
	}
	r.Opt = opt
	cfg.Dcp.Group.Membership.Type = opt.Membership
	cfg.Dcp.Group.Membership.MemberNumber = opt.Member
	cfg.Dcp.Group.Membership.TotalMembers = opt.Total
	cfg.Dcp.Group.Membership.RebalanceDelay = time.Hour
	r.Cfg = cfg
	r.Client = &Client{r: r, Obs: map[uint16]couchbase.Observer{}}
	r.Meta = &Meta{r: r, inflight: map[string]*saveArgs{}}
	r.Cons = &Consumer{r: r}
	r.H = &Handler{r: r}
	cfg.API.Disabled = true
	cfg.HealthCheck.Disabled = true
	ver := opt.Version
	if ver == nil {
		ver = &couchbase.Version{Major: 7, Minor: 6}
	}
	r.Dcp = dcp.VerifNewDcp(cfg, r.Client, r.Cons, ver, &couchbase.BucketInfo{})
	r.Dcp.SetMetadata(r.Meta)
	r.Dcp.SetEventHandler(r.H)
	_, _, r.Bus, r.StopCh = dcp.VerifParts(r.Dcp)
	s := r.S
	vhook.Fn = func(point string, args ...interface{}) {
		key := ""
		if len(args) > 0 {
			key = fmt.Sprint(args[0])
		}
		s.At(point, key, nil)
	}
	return r
}

var ErrInjected = errors.New("injected failure")

// Scrape runs the real metric collector (metric.NewMetricCollector(...).Collect) and returns what it exposes as the
// Scrape event of the specification.
// HookScrape runs the real metric collector from inside a lifecycle callback (the seqno query it makes is answered at
// once); false when it panics or does not return.
func (r *Rig) HookScrape() bool {
	st := r.Stream()
	if st == nil {
		return true
	}
	_, vd, _, _ := dcp.VerifParts(r.Dcp)
	col := metric.NewMetricCollector(r.Client, st, vd)
	done := make(chan bool, 1)
	atomic.AddInt32(&r.inHook, 1)
	defer atomic.AddInt32(&r.inHook, -1)
	go func() {
		defer func() {
			if recover() != nil {
				done <- false
			}
		}()
		ch := make(chan prometheus.Metric, 4096)
		col.Collect(ch)
		done <- true
	}()
	select {
	case ok := <-done:
		return ok
	case <-time.After(2 * time.Second):
		return false
	}
}

func (r *Rig) Scrape() Ev {
	st := r.Stream()
	_, vd, _, _ := dcp.VerifParts(r.Dcp)
	col := metric.NewMetricCollector(r.Client, st, vd)
	ch := make(chan prometheus.Metric, 4096)
	col.Collect(ch)
	close(ch)
	n := r.W.NVB
	pos := make([][3]int64, n)
	lag := make([]int64, n)
	cnt := make([][3]int64, n)
	for i := range pos {
		pos[i] = [3]int64{-1, -1, -1}
	}
	ev := Ev{"ev": "Scrape", "closed": true}
	count := 0
	for m := range ch {
		count++
		var d dto.Metric
		if m.Write(&d) != nil {
			continue
		}
		name := m.Desc().String()
		val := 0.0
		if d.Gauge != nil {
			val = d.GetGauge().GetValue()
		} else if d.Counter != nil {
			val = d.GetCounter().GetValue()
		}
		vb := -1
		for _, l := range d.Label {
			if l.GetName() == "vbId" {
				vb, _ = strconv.Atoi(l.GetValue())
			}
		}
		has := func(s string) bool { return strings.Contains(name, "fqName: \""+helpers.Name+"_"+s+"\"") }
		switch {
		case has("seq_no_current") && vb >= 0 && vb < n:
			pos[vb][0] = int64(val)
		case has("start_seq_no_current") && vb >= 0 && vb < n:
			pos[vb][1] = int64(val)
		case has("end_seq_no_current") && vb >= 0 && vb < n:
			pos[vb][2] = int64(val)
		case has("lag_current") && vb >= 0 && vb < n:
			lag[vb] = int64(val)
		case has("total_lag_current"):
			ev["total"] = int64(val)
		case has("mutation_total") && vb >= 0 && vb < n:
			cnt[vb][0] = int64(val)
		case has("deletion_total") && vb >= 0 && vb < n:
			cnt[vb][1] = int64(val)
		case has("expiration_total") && vb >= 0 && vb < n:
			cnt[vb][2] = int64(val)
		case has("active_stream_current"):
			ev["active"] = int64(val)
		case has("rebalance_current"):
			ev["rebalances"] = int64(val)
		case has("total_members_current"):
			ev["totalm"] = int64(val)
		case has("member_number_current"):
			ev["member"] = int64(val)
		case has("vbucket_range_start_current"):
			ev["rlo"] = int64(val) + 1
		case has("vbucket_range_end_current"):
			ev["rhi"] = int64(val) + 1
		}
	}
	if count == 0 {
		return ev
	}
	ev["closed"] = false
	ev["pos"], ev["lag"], ev["cnt"] = pos, lag, cnt
	return ev
}

// Stream is the stream object of the dcp (nil before Start created it).
func (r *Rig) Stream() stream.Stream {
	st, _, _, _ := dcp.VerifParts(r.Dcp)
	return st
}

// Stopped reports whether the stop channel was closed (the client stops on its own).
func (r *Rig) Stopped() bool {
	select {
	case _, ok := <-r.StopCh:
		return !ok
	default:
		return false
	}
}

// NoteTimer remembers the stream's current rebalance timer if it is a new one.
func (r *Rig) NoteTimer() {
	st := r.Stream()
	if st == nil {
		return
	}
	f := reflect.ValueOf(st).Elem().FieldByName("rebalanceTimer")
	t := *(**time.Timer)(unsafe.Pointer(f.UnsafeAddr()))
	if t == nil {
		return
	}
	for _, x := range r.Timers {
		if x == t {
			return
		}
	}
	r.Timers = append(r.Timers, t)
}

// StateEv is the API-visible state: Stream.GetOffsets(), IsOpen().
func (r *Rig) StateEv() Ev {
	st := r.Stream()
	if st == nil {
		l := make([]any, r.W.NVB)
		for i := range l {
			l[i] = NoOff()
		}
		return Ev{"ev": "State", "offsets": l, "open": false, "active": 0, "thr": r.thr()}
	}
	offs, _, _ := st.GetOffsets()
	l := make([]any, r.W.NVB)
	for i := 0; i < r.W.NVB; i++ {
		l[i] = NoOff()
	}
	if offs != nil {
		offs.Range(func(vb uint16, o *models.Offset) bool {
			if int(vb) < r.W.NVB {
				l[vb] = OffEv(o)
			}
			return true
		})
	}
	_, act := st.GetMetric()
	return Ev{"ev": "State", "offsets": l, "open": st.IsOpen(), "active": int(act), "thr": r.thr()}
}

// Post is the projection of the implementation state the specification predicts after every step.
func (r *Rig) Post() Ev {
	st := r.Stream()
	if st == nil {
		return Ev{}
	}
	offs, dirty, flag := st.GetOffsets()
	l := make([]any, r.W.NVB)
	for i := 0; i < r.W.NVB; i++ {
		l[i] = NoOff()
	}
	if offs != nil {
		offs.Range(func(vb uint16, o *models.Offset) bool {
			if int(vb) < r.W.NVB {
				l[vb] = OffEv(o)
			}
			return true
		})
	}
	ds := []int{}
	if dirty != nil {
		dirty.Range(func(vb uint16, d bool) bool {
			if d {
				ds = append(ds, int(vb)+1)
			}
			return true
		})
	}
	sort.Ints(ds)
	pk := []string{}
	for th, g := range r.S.Parked() {
		if len(th) > 4 && th[:4] == "lib:" {
			pk = append(pk, th)
		} else {
			pk = append(pk, th+"@"+g)
		}
	}
	sort.Strings(pk)
	m, active := st.GetMetric()
	return Ev{"offsets": l, "dirty": ds, "flag": flag, "store": r.W.StoreEv(), "open": st.IsOpen(),
		"parked": pk, "active": int(active), "rebalances": m.Rebalance, "stopped": r.Stopped(), "thr": r.thr()}
}
