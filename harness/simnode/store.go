package simnode

import (
	"encoding/binary"
	"encoding/json"
	"sync"

	"github.com/couchbase/gocbcore/v10/memd"
)

// Doc is one document of the simulated bucket.
type Doc struct {
	Body   []byte
	Xattrs map[string][]byte
	Cas    uint64
}

// Store is a bucket shared by several Node front-ends (one front-end per library instance, so that every
// key-value request can be attributed to the instance that sent it).
type Store struct {
	mu   sync.Mutex
	Docs map[string]*Doc
	cas  uint64
	// Gate, if set, is called (outside the lock, on a goroutine of its own per request) before a document
	// request is served: member = index of the front-end, op = "get" | "mutate" | "set".
	Gate func(member int, op string, key string)
}

func NewStore() *Store { return &Store{Docs: map[string]*Doc{}, cas: 100} }

func (s *Store) With(f func(docs map[string]*Doc)) {
	s.mu.Lock()
	defer s.mu.Unlock()
	f(s.Docs)
}

// Touch gives the document a new CAS (server-side modification).
func (s *Store) nextCas() uint64 { s.cas++; return s.cas }

// SetBody replaces (or creates) a document on the server side.
func (s *Store) SetBody(key string, body []byte) {
	s.mu.Lock()
	defer s.mu.Unlock()
	s.Docs[key] = &Doc{Body: body, Cas: s.nextCas()}
}

func (s *Store) Delete(key string) {
	s.mu.Lock()
	defer s.mu.Unlock()
	delete(s.Docs, key)
}

func (s *Store) Get(key string) ([]byte, bool) {
	s.mu.Lock()
	defer s.mu.Unlock()
	d, ok := s.Docs[key]
	if !ok {
		return nil, false
	}
	return append([]byte{}, d.Body...), true
}

// Handler returns the data-command handler of front-end `member`.
func (s *Store) Handler(member int) func(n *Node, c *memd.Conn, p *memd.Packet, send func(*memd.Packet)) bool {
	return func(n *Node, c *memd.Conn, p *memd.Packet, send func(*memd.Packet)) bool {
		switch p.Command {
		case memd.CmdCollectionsGetID:
			send(&memd.Packet{Magic: memd.CmdMagicRes, Command: p.Command, Opaque: p.Opaque, Status: memd.StatusSuccess,
				Extras: append(be64(0), 0, 0, 0, 0)})
			return true
		case memd.CmdGet, memd.CmdSet, memd.CmdAdd, memd.CmdDelete, memd.CmdSubDocMultiMutation, memd.CmdSubDocMultiLookup:
			q := *p
			go s.serve(member, &q, send)
			return true
		}
		return false
	}
}

func be64(v uint64) []byte { b := make([]byte, 8); binary.BigEndian.PutUint64(b, v); return b }

func (s *Store) serve(member int, p *memd.Packet, send func(*memd.Packet)) {
	key := string(p.Key) // (memd.Conn has already split off the collection id)
	op := map[memd.CmdCode]string{memd.CmdGet: "get", memd.CmdSet: "set", memd.CmdAdd: "set", memd.CmdDelete: "set",
		memd.CmdSubDocMultiMutation: "mutate", memd.CmdSubDocMultiLookup: "get"}[p.Command]
	if s.Gate != nil {
		s.Gate(member, op, key)
	}
	res := func(st memd.StatusCode, extras, val []byte, cas uint64) {
		send(&memd.Packet{Magic: memd.CmdMagicRes, Command: p.Command, Opaque: p.Opaque, Status: st, Extras: extras, Value: val, Cas: cas})
	}
	s.mu.Lock()
	defer s.mu.Unlock()
	d := s.Docs[key]
	switch p.Command {
	case memd.CmdGet:
		if d == nil {
			res(memd.StatusKeyNotFound, nil, nil, 0)
			return
		}
		res(memd.StatusSuccess, []byte{0, 0, 0, 0}, d.Body, d.Cas)
	case memd.CmdDelete:
		if d == nil {
			res(memd.StatusKeyNotFound, nil, nil, 0)
			return
		}
		delete(s.Docs, key)
		res(memd.StatusSuccess, nil, nil, s.nextCas())
	case memd.CmdSubDocMultiLookup:
		// one spec: op(1) flags(1) pathlen(2) path ; an xattr path is looked up in the document's extended attributes
		if d == nil {
			res(memd.StatusKeyNotFound, nil, nil, 0)
			return
		}
		v := p.Value
		if len(v) < 4 {
			res(memd.StatusInvalidArgs, nil, nil, 0)
			return
		}
		pl := int(binary.BigEndian.Uint16(v[2:]))
		path := string(v[4 : 4+pl])
		x, ok := d.Xattrs[path]
		if !ok {
			res(memd.StatusSubDocBadMulti, nil, []byte{0, byte(memd.StatusSubDocPathNotFound), 0, 0, 0, 0}, d.Cas)
			return
		}
		out := []byte{0, 0, byte(len(x) >> 24), byte(len(x) >> 16), byte(len(x) >> 8), byte(len(x))}
		res(memd.StatusSuccess, nil, append(out, x...), d.Cas)
	case memd.CmdSet, memd.CmdAdd:
		if p.Command == memd.CmdAdd && d != nil {
			res(memd.StatusKeyExists, nil, nil, 0)
			return
		}
		if p.Cas != 0 && (d == nil || d.Cas != p.Cas) {
			res(memd.StatusKeyExists, nil, nil, 0)
			return
		}
		nd := &Doc{Body: append([]byte{}, p.Value...), Cas: s.nextCas()}
		s.Docs[key] = nd
		res(memd.StatusSuccess, nil, nil, nd.Cas)
	case memd.CmdSubDocMultiMutation:
		// extras: [expiry(4)] [doc flags(1)]; value: specs op(1) flags(1) pathlen(2) vallen(4) path value
		var docFlags byte
		if l := len(p.Extras); l == 1 || l == 5 {
			docFlags = p.Extras[l-1]
		}
		v := p.Value
		if len(v) < 8 {
			res(memd.StatusInvalidArgs, nil, nil, 0)
			return
		}
		opc := memd.SubDocOpType(v[0])
		pl := int(binary.BigEndian.Uint16(v[2:]))
		vl := int(binary.BigEndian.Uint32(v[4:]))
		path := string(v[8 : 8+pl])
		val := append([]byte{}, v[8+pl:8+pl+vl]...)
		if d == nil && docFlags&byte(memd.SubdocDocFlagMkDoc) == 0 {
			res(memd.StatusKeyNotFound, nil, nil, 0)
			return
		}
		if p.Cas != 0 && (d == nil || d.Cas != p.Cas) {
			res(memd.StatusKeyExists, nil, nil, 0)
			return
		}
		if v[1]&0x04 != 0 { // extended attribute
			nd := &Doc{Xattrs: map[string][]byte{}, Cas: s.nextCas()}
			if d != nil {
				nd.Body = d.Body
				for k, x := range d.Xattrs {
					nd.Xattrs[k] = x
				}
			}
			nd.Xattrs[path] = val
			s.Docs[key] = nd
			res(memd.StatusSuccess, nil, nil, nd.Cas)
			return
		}
		switch opc {
		case memd.SubDocOpSetDoc:
			nd := &Doc{Body: val, Cas: s.nextCas()}
			s.Docs[key] = nd
			res(memd.StatusSuccess, nil, nil, nd.Cas)
		case memd.SubDocOpDictSet:
			m := map[string]json.RawMessage{}
			if d != nil {
				_ = json.Unmarshal(d.Body, &m)
			}
			m[path] = json.RawMessage(val)
			b, _ := json.Marshal(m)
			nd := &Doc{Body: b, Cas: s.nextCas()}
			s.Docs[key] = nd
			res(memd.StatusSuccess, nil, nil, nd.Cas)
		default:
			res(memd.StatusNotSupported, nil, nil, 0)
		}
	}
}
