// Package simnode is a minimal simulated Couchbase node: the streaming-config HTTP endpoint and the memcached binary
// protocol (SCRAM-SHA512 auth, hello, cluster config) as gocbcore speaks it, with a pluggable handler for data
// commands. It lets the real couchbase.NewClient(...).Connect() and everything built on the meta agent run offline.
package simnode

import (
	"crypto/hmac"
	"crypto/rand"
	"crypto/sha512"
	"encoding/base64"
	"encoding/binary"
	"encoding/json"
	"fmt"
	"net"
	"net/http"
	"strings"
	"sync"

	"github.com/couchbase/gocbcore/v10/memd"
)

type Node struct {
	mu       sync.Mutex
	Bucket   string
	NumVb    int
	httpL    net.Listener
	kvL      net.Listener
	extraKV  []net.Listener
	Replicas int
	Log      []string
	Password string
	Observe  func(node int, vb uint16, val []byte) (memd.StatusCode, []byte)
	rev      int
	unlisted map[[2]int]bool // {vb, replica index}: the cluster map has no node for this copy
	cond     *sync.Cond
	Handler  func(n *Node, c *memd.Conn, p *memd.Packet, send func(*memd.Packet)) bool
}

func (n *Node) logf(f string, a ...any) {
	n.mu.Lock()
	n.Log = append(n.Log, fmt.Sprintf(f, a...))
	n.mu.Unlock()
}

func (n *Node) HTTPPort() int { return n.httpL.Addr().(*net.TCPAddr).Port }
func (n *Node) KVPort() int   { return n.kvL.Addr().(*net.TCPAddr).Port }

// Unlist removes copy `replica` of vb from the cluster map (a new revision is pushed to every streaming config client).
func (n *Node) Unlist(vb, replica int) {
	n.mu.Lock()
	if n.unlisted == nil {
		n.unlisted = map[[2]int]bool{}
	}
	n.unlisted[[2]int{vb, replica}] = true
	n.rev++
	if n.cond != nil {
		n.cond.Broadcast()
	}
	n.mu.Unlock()
}

func (n *Node) config() []byte {
	n.mu.Lock()
	rev := n.rev + 1
	un := map[[2]int]bool{}
	for k, v := range n.unlisted {
		un[k] = v
	}
	n.mu.Unlock()
	vbmap := make([][]int, n.NumVb)
	nn := 1 + len(n.extraKV)
	for i := range vbmap {
		vbmap[i] = []int{0}
		for r := 1; r <= n.Replicas; r++ {
			if un[[2]int{i, r}] {
				vbmap[i] = append(vbmap[i], -1)
			} else {
				vbmap[i] = append(vbmap[i], r%nn)
			}
		}
	}
	servers := []string{fmt.Sprintf("127.0.0.1:%d", n.KVPort())}
	nodesExt := []any{map[string]any{"services": map[string]int{"mgmt": n.HTTPPort(), "kv": n.KVPort()}, "thisNode": true, "hostname": "127.0.0.1"}}
	nodes := []any{map[string]any{"hostname": fmt.Sprintf("127.0.0.1:%d", n.HTTPPort()), "ports": map[string]int{"direct": n.KVPort()}}}
	for _, l := range n.extraKV {
		p := l.Addr().(*net.TCPAddr).Port
		nodes = append(nodes, map[string]any{"hostname": fmt.Sprintf("127.0.0.1:%d", p+1), "ports": map[string]int{"direct": p}})
		servers = append(servers, fmt.Sprintf("127.0.0.1:%d", p))
		nodesExt = append(nodesExt, map[string]any{"services": map[string]int{"kv": p}, "hostname": "127.0.0.1"})
	}
	cfg := map[string]any{
		"rev": rev, "revEpoch": 1, "name": n.Bucket, "uuid": "b0b0b0b0b0b0b0b0b0b0b0b0b0b0b0b0",
		"nodeLocator":        "vbucket",
		"bucketCapabilities": []string{"collections", "durableWrite", "tombstonedUserXAttrs", "couchapi", "dcp", "cbhello", "touch", "cccp", "xdcrCheckpointing", "nodesExt", "xattr"},
		"bucketCapabilitiesVer": "",
		"collectionsManifestUid": "0",
		"vBucketServerMap": map[string]any{
			"hashAlgorithm": "CRC", "numReplicas": n.Replicas,
			"serverList": servers,
			"vBucketMap": vbmap,
		},
		"nodes": nodes,
		"nodesExt": nodesExt,
		"clusterCapabilitiesVer": []int{1, 0}, "clusterCapabilities": map[string]any{},
	}
	b, _ := json.Marshal(cfg)
	return b
}

func Start(bucket string, numVb int) *Node { return StartN(bucket, numVb, 1, 0) }

func StartN(bucket string, numVb int, nodes int, replicas int) *Node {
	n := &Node{Bucket: bucket, NumVb: numVb, Password: "password", Replicas: replicas}
	for i := 1; i < nodes; i++ {
		l, _ := net.Listen("tcp", "127.0.0.1:0")
		n.extraKV = append(n.extraKV, l)
		go func(l net.Listener, idx int) {
			for {
				c, err := l.Accept()
				if err != nil {
					return
				}
				go n.serveIdx(c, idx)
			}
		}(l, i)
	}
	n.httpL, _ = net.Listen("tcp", "127.0.0.1:0")
	n.kvL, _ = net.Listen("tcp", "127.0.0.1:0")
	mux := http.NewServeMux()
	mux.HandleFunc("/", func(w http.ResponseWriter, r *http.Request) {
		n.logf("HTTP %s %s", r.Method, r.URL.Path)
		switch {
		case strings.HasPrefix(r.URL.Path, "/pools/default/bs/"):
			w.Header().Set("Content-Type", "application/json")
			w.WriteHeader(200)
			// streaming endpoint: the current configuration, then every new revision
			n.mu.Lock()
			if n.cond == nil {
				n.cond = sync.NewCond(&n.mu)
			}
			n.mu.Unlock()
			go func() { <-r.Context().Done(); n.mu.Lock(); n.cond.Broadcast(); n.mu.Unlock() }()
			sent := -1
			for r.Context().Err() == nil {
				n.mu.Lock()
				for n.rev == sent && r.Context().Err() == nil {
					n.cond.Wait()
				}
				sent = n.rev
				n.mu.Unlock()
				if r.Context().Err() != nil {
					break
				}
				w.Write(n.config())
				w.Write([]byte("\n\n\n\n"))
				w.(http.Flusher).Flush()
			}
		case r.URL.Path == "/pools":
			w.Write([]byte(`{"implementationVersion":"7.6.3-4200-enterprise"}`))
		case strings.HasPrefix(r.URL.Path, "/pools/default/buckets/"):
			w.Write([]byte(`{"bucketType":"membase","storageBackend":"couchstore"}`))
		default:
			w.Write([]byte(`{}`))
		}
	})
	go http.Serve(n.httpL, mux)
	go func() {
		for {
			c, err := n.kvL.Accept()
			if err != nil {
				return
			}
			go n.serveIdx(c, 0)
		}
	}()
	return n
}

func pbkdf2(pw, salt []byte, iter int) []byte {
	mac := hmac.New(sha512.New, pw)
	mac.Write(salt)
	mac.Write([]byte{0, 0, 0, 1})
	u := mac.Sum(nil)
	out := append([]byte{}, u...)
	for i := 1; i < iter; i++ {
		mac.Reset()
		mac.Write(u)
		u = mac.Sum(nil)
		for j := range out {
			out[j] ^= u[j]
		}
	}
	return out
}

func hm(k, m []byte) []byte { h := hmac.New(sha512.New, k); h.Write(m); return h.Sum(nil) }

type scram struct{ clientFirstBare, serverFirst, nonce string; salted []byte }

func (n *Node) serveIdx(nc net.Conn, nodeIdx int) {
	defer nc.Close()
	c := memd.NewConn(nc)
	var sc scram
	var wmu sync.Mutex
	reply := func(req *memd.Packet, st memd.StatusCode, extras, key, val []byte) {
		wmu.Lock()
		defer wmu.Unlock()
		_ = c.WritePacket(&memd.Packet{Magic: memd.CmdMagicRes, Command: req.Command, Opaque: req.Opaque, Status: st, Extras: extras, Key: key, Value: val, Cas: 1})
	}
	for {
		p, _, err := c.ReadPacket()
		if err != nil {
			return
		}
		n.logf("KV[%d] %s key=%q vb=%d extras=%x", nodeIdx, p.Command.Name(), p.Key, p.Vbucket, p.Extras)
		if p.Command == memd.CmdObserveSeqNo && n.Observe != nil {
			st, v := n.Observe(nodeIdx, p.Vbucket, p.Value)
			reply(p, st, nil, nil, v)
			continue
		}
		switch p.Command {
		case memd.CmdHello:
			supported := map[uint16]bool{0x06: true, 0x07: true, 0x08: true, 0x0b: true, 0x10: true, 0x11: true, 0x12: true}
			var out []byte
			coll := false
			for i := 0; i+1 < len(p.Value); i += 2 {
				f := binary.BigEndian.Uint16(p.Value[i:])
				if supported[f] {
					out = append(out, p.Value[i], p.Value[i+1])
					if f == 0x12 {
						coll = true
					}
				}
			}
			reply(p, memd.StatusSuccess, nil, nil, out)
			if coll {
				c.EnableFeature(memd.FeatureCollections)
			}
		case memd.CmdGetErrorMap:
			reply(p, memd.StatusSuccess, nil, nil, []byte(`{"version":2,"revision":1,"errors":{}}`))
		case memd.CmdSASLListMechs:
			reply(p, memd.StatusSuccess, nil, nil, []byte("SCRAM-SHA512"))
		case memd.CmdSASLAuth:
			if string(p.Key) != "SCRAM-SHA512" {
				reply(p, memd.StatusAuthError, nil, nil, nil)
				continue
			}
			msg := string(p.Value) // n,,n=user,r=nonce
			bare := strings.SplitN(msg, ",", 3)[2]
			var cn string
			for _, kv := range strings.Split(bare, ",") {
				if strings.HasPrefix(kv, "r=") {
					cn = kv[2:]
				}
			}
			salt := make([]byte, 16)
			rand.Read(salt)
			sn := make([]byte, 12)
			rand.Read(sn)
			sc.nonce = cn + base64.StdEncoding.EncodeToString(sn)
			sc.clientFirstBare = bare
			sc.serverFirst = fmt.Sprintf("r=%s,s=%s,i=%d", sc.nonce, base64.StdEncoding.EncodeToString(salt), 64)
			sc.salted = pbkdf2([]byte(n.Password), salt, 64)
			reply(p, memd.StatusAuthContinue, nil, nil, []byte(sc.serverFirst))
		case memd.CmdSASLStep:
			msg := string(p.Value) // c=biws,r=nonce,p=proof
			idx := strings.LastIndex(msg, ",p=")
			withoutProof := msg[:idx]
			authMsg := sc.clientFirstBare + "," + sc.serverFirst + "," + withoutProof
			clientKey := hm(sc.salted, []byte("Client Key"))
			storedKey := sha512.Sum512(clientKey)
			clientSig := hm(storedKey[:], []byte(authMsg))
			proof, _ := base64.StdEncoding.DecodeString(msg[idx+3:])
			ok := len(proof) == len(clientKey)
			if ok {
				for i := range proof {
					if proof[i]^clientSig[i] != clientKey[i] {
						ok = false
					}
				}
			}
			if !ok {
				reply(p, memd.StatusAuthError, nil, nil, nil)
				continue
			}
			serverKey := hm(sc.salted, []byte("Server Key"))
			reply(p, memd.StatusSuccess, nil, nil, []byte("v="+base64.StdEncoding.EncodeToString(hm(serverKey, []byte(authMsg)))))
		case memd.CmdSelectBucket:
			reply(p, memd.StatusSuccess, nil, nil, nil)
		case memd.CmdGetClusterConfig:
			reply(p, memd.StatusSuccess, nil, nil, n.config())
		case memd.CmdDcpOpenConnection, memd.CmdDcpControl, memd.CmdNoop:
			reply(p, memd.StatusSuccess, nil, nil, nil)
		default:
			if n.Handler != nil && n.Handler(n, c, p, func(q *memd.Packet) { wmu.Lock(); _ = c.WritePacket(q); wmu.Unlock() }) {
				continue
			}
			reply(p, memd.StatusUnknownCommand, nil, nil, nil)
		}
	}
}
