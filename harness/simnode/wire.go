package simnode

import (
	"sync"

	"github.com/couchbase/gocbcore/v10/memd"
)

// Wire answers the data and DCP commands the wrappers of couchbase/client.go and doc_op.go issue, per command in one of
// three ways: "ok" (a well-formed success), "fail" (an error status that gocbcore does not retry), "silent" (no reply).
type Wire struct {
	mu      sync.Mutex
	Mode    map[memd.CmdCode]string
	Store   *Store
	NumVb   int
	OnServe func(cmd memd.CmdCode, outcome string) // called when a reply is sent ("ok" | "fail"); never for "silent"
	streams map[uint16]func(*memd.Packet)
}

func NewWire(numVb int) *Wire {
	return &Wire{Mode: map[memd.CmdCode]string{}, Store: NewStore(), NumVb: numVb, streams: map[uint16]func(*memd.Packet){}}
}

func (w *Wire) Set(mode string, cmds ...memd.CmdCode) {
	w.mu.Lock()
	for _, c := range cmds {
		w.Mode[c] = mode
	}
	w.mu.Unlock()
}

func (w *Wire) served(c memd.CmdCode, o string) {
	if w.OnServe != nil {
		w.OnServe(c, o)
	}
}

func (w *Wire) Handler() func(n *Node, c *memd.Conn, p *memd.Packet, send func(*memd.Packet)) bool {
	store := w.Store.Handler(0)
	return func(n *Node, c *memd.Conn, p *memd.Packet, send func(*memd.Packet)) bool {
		w.mu.Lock()
		mode := w.Mode[p.Command]
		w.mu.Unlock()
		res := func(st memd.StatusCode, extras, val []byte) {
			send(&memd.Packet{Magic: memd.CmdMagicRes, Command: p.Command, Opaque: p.Opaque, Status: st, Extras: extras, Value: val, Cas: 1})
		}
		switch mode {
		case "silent":
			return true
		case "fail":
			w.served(p.Command, "fail")
			if p.Command == memd.CmdCollectionsGetID {
				res(memd.StatusScopeUnknown, nil, nil)
			} else {
				res(memd.StatusInvalidArgs, nil, nil)
			}
			return true
		}
		switch p.Command {
		case memd.CmdGetAllVBSeqnos:
			var v []byte
			for i := 0; i < w.NumVb; i++ {
				v = append(v, byte(i>>8), byte(i))
				v = append(v, be64(100)...)
			}
			w.served(p.Command, "ok")
			res(memd.StatusSuccess, nil, v)
		case memd.CmdDcpGetFailoverLog:
			w.served(p.Command, "ok")
			res(memd.StatusSuccess, nil, append(be64(0xAAAA), be64(0)...))
		case memd.CmdDcpStreamReq:
			w.served(p.Command, "ok")
			res(memd.StatusSuccess, nil, append(be64(0xAAAA), be64(0)...))
			op, vb := p.Opaque, p.Vbucket
			w.mu.Lock()
			w.streams[vb] = func(q *memd.Packet) { q.Magic = memd.CmdMagicReq; q.Opaque = op; q.Vbucket = vb; send(q) }
			w.mu.Unlock()
		case memd.CmdDcpCloseStream:
			w.served(p.Command, "ok")
			res(memd.StatusSuccess, nil, nil)
			w.mu.Lock()
			f := w.streams[p.Vbucket]
			delete(w.streams, p.Vbucket)
			w.mu.Unlock()
			if f != nil {
				f(&memd.Packet{Command: memd.CmdDcpStreamEnd, Extras: []byte{0, 0, 0, 1}})
			}
		case memd.CmdDcpBufferAck:
		default:
			if store(n, c, p, func(q *memd.Packet) {
				o := "ok"
				if q.Status != memd.StatusSuccess {
					o = "fail"
				}
				w.served(p.Command, o)
				send(q)
			}) {
				return true
			}
			return false
		}
		return true
	}
}
