package simnode

import (
	"sync"

	"github.com/couchbase/gocbcore/v10/memd"
)

// Wire answers the data and DCP commands the wrappers of couchbase/client.go and doc_op.go issue, per command in one of
// three ways: "ok" (a well-formed success), "fail" (an error status that gocbcore does not retry), "silent" (no reply).
type Wire struct {
	mu      sync.Mutex
	Mode    map[memd.CmdCode]string
	Store   *Store
	NumVb   int
	OnServe func(cmd memd.CmdCode, outcome string) // called when a reply is sent ("ok" | "fail"); never for "silent"
	streams map[uint16]func(*memd.Packet)
	FoLog   [][2]uint64      // failover log (newest first) answered to DCP_GET_FAILOVER_LOG and on a successful stream request
	Rollback map[uint16]uint64 // vb -> seqno: the next stream request of vb is answered ROLLBACK(seqno) (once)
	Reqs    [][5]uint64      // every DCP_STREAM_REQ received: vbUUID, start, end, snapshot start, snapshot end
	// Burst, if set, is sent on a stream right behind the answer that accepts it: a snapshot marker [Burst[0], Burst[1]] and one
	// mutation for every further seqno listed
	Burst []uint64
}

func NewWire(numVb int) *Wire {
	return &Wire{Mode: map[memd.CmdCode]string{}, Store: NewStore(), NumVb: numVb, streams: map[uint16]func(*memd.Packet){},
		FoLog: [][2]uint64{{0xAAAA, 0}}, Rollback: map[uint16]uint64{}}
}

func (w *Wire) Set(mode string, cmds ...memd.CmdCode) {
	w.mu.Lock()
	for _, c := range cmds {
		w.Mode[c] = mode
	}
	w.mu.Unlock()
}

func (w *Wire) served(c memd.CmdCode, o string) {
	if w.OnServe != nil {
		w.OnServe(c, o)
	}
}

func (w *Wire) Handler() func(n *Node, c *memd.Conn, p *memd.Packet, send func(*memd.Packet)) bool {
	store := w.Store.Handler(0)
	return func(n *Node, c *memd.Conn, p *memd.Packet, send func(*memd.Packet)) bool {
		w.mu.Lock()
		mode := w.Mode[p.Command]
		w.mu.Unlock()
		res := func(st memd.StatusCode, extras, val []byte) {
			send(&memd.Packet{Magic: memd.CmdMagicRes, Command: p.Command, Opaque: p.Opaque, Status: st, Extras: extras, Value: val, Cas: 1})
		}
		switch mode {
		case "silent":
			return true
		case "fail":
			w.served(p.Command, "fail")
			if p.Command == memd.CmdCollectionsGetID {
				res(memd.StatusScopeUnknown, nil, nil)
			} else {
				res(memd.StatusInvalidArgs, nil, nil)
			}
			return true
		}
		switch p.Command {
		case memd.CmdGetAllVBSeqnos:
			var v []byte
			for i := 0; i < w.NumVb; i++ {
				v = append(v, byte(i>>8), byte(i))
				v = append(v, be64(100)...)
			}
			w.served(p.Command, "ok")
			res(memd.StatusSuccess, nil, v)
		case memd.CmdDcpGetFailoverLog:
			w.served(p.Command, "ok")
			res(memd.StatusSuccess, nil, w.folog())
		case memd.CmdDcpStreamReq:
			if len(p.Extras) >= 48 {
				w.mu.Lock()
				w.Reqs = append(w.Reqs, [5]uint64{u64(p.Extras[24:]), u64(p.Extras[8:]), u64(p.Extras[16:]), u64(p.Extras[32:]), u64(p.Extras[40:])})
				rb, isRb := w.Rollback[p.Vbucket]
				delete(w.Rollback, p.Vbucket)
				w.mu.Unlock()
				if isRb {
					w.served(p.Command, "fail")
					res(memd.StatusRollback, nil, be64(rb))
					return true
				}
			}
			w.served(p.Command, "ok")
			res(memd.StatusSuccess, nil, w.folog())
			op, vb := p.Opaque, p.Vbucket
			w.mu.Lock()
			w.streams[vb] = func(q *memd.Packet) { q.Magic = memd.CmdMagicReq; q.Opaque = op; q.Vbucket = vb; send(q) }
			burst := w.Burst
			w.Burst = nil
			w.mu.Unlock()
			if len(burst) >= 2 {
				ex := append(append(be64(burst[0]), be64(burst[1])...), 0, 0, 0, 1)
				send(&memd.Packet{Magic: memd.CmdMagicReq, Command: memd.CmdDcpSnapshotMarker, Opaque: op, Vbucket: vb, Extras: ex})
				for _, q := range burst[2:] {
					mx := append(append(be64(q), be64(1)...), make([]byte, 15)...)
					send(&memd.Packet{Magic: memd.CmdMagicReq, Command: memd.CmdDcpMutation, Opaque: op, Vbucket: vb, Extras: mx,
						Key: []byte("k"), Value: []byte("v"), Cas: uint64(1800000000) * 1000000000})
				}
			}
		case memd.CmdDcpCloseStream:
			w.served(p.Command, "ok")
			res(memd.StatusSuccess, nil, nil)
			w.mu.Lock()
			f := w.streams[p.Vbucket]
			delete(w.streams, p.Vbucket)
			w.mu.Unlock()
			if f != nil {
				f(&memd.Packet{Command: memd.CmdDcpStreamEnd, Extras: []byte{0, 0, 0, 1}})
			}
		case memd.CmdDcpBufferAck:
		default:
			if store(n, c, p, func(q *memd.Packet) {
				o := "ok"
				if q.Status != memd.StatusSuccess {
					o = "fail"
				}
				w.served(p.Command, o)
				send(q)
			}) {
				return true
			}
			return false
		}
		return true
	}
}

func u64(b []byte) uint64 {
	var v uint64
	for i := 0; i < 8; i++ {
		v = v<<8 | uint64(b[i])
	}
	return v
}

func (w *Wire) folog() []byte {
	w.mu.Lock()
	defer w.mu.Unlock()
	var v []byte
	for _, e := range w.FoLog {
		v = append(v, be64(e[0])...)
		v = append(v, be64(e[1])...)
	}
	return v
}

// Script sets what the next stream request of vb meets and forgets the requests seen so far.
func (w *Wire) Script(vb uint16, folog [][2]uint64, rollback int64) {
	w.mu.Lock()
	w.FoLog = folog
	w.Reqs = nil
	w.Burst = nil
	delete(w.Rollback, vb)
	if rollback >= 0 {
		w.Rollback[vb] = uint64(rollback)
	}
	w.mu.Unlock()
}

func (w *Wire) Requests() [][5]uint64 {
	w.mu.Lock()
	defer w.mu.Unlock()
	return append([][5]uint64{}, w.Reqs...)
}

// SetBurst: see Wire.Burst (consumed by the next accepted stream request).
func (w *Wire) SetBurst(b []uint64) { w.mu.Lock(); w.Burst = b; w.mu.Unlock() }
