------------------------------- MODULE MonWire -------------------------------
(* C02 / C08 / C14 at the wire: rows printed by StreamReq.tla executed by the real couchbase client against the simulated node
   (the DCP_STREAM_REQ packets it received are the observation), and 64-bit fidelity rows (values travel as decimal strings:
   TLC integers have 32 bits) through the stream request, the Couchbase xattr metadata backend and the file backend. *)
EXTENDS Integers, Sequences, FiniteSets, TLC, Json
S == INSTANCE StreamReq WITH MaxSeq <- 0, MaxLog <- 0, log <- 0, uuid <- 0, seq <- 0, ss <- 0, se <- 0, latest <- 0, rb <- 0
VARIABLES pos, bad
Rows == ndJsonDeserialize("mon.ndjson")
Has(r, f) == f \in DOMAIN r
\* the branch rule, restated on a row
Branch(log, r) == log[CHOOSE k \in 1..Len(log) : log[k][2] <= r /\ \A j \in 1..(k - 1) : log[j][2] > r][1]
Judge(r) ==
  IF Has(r, "err") THEN {<<r.prop, "the real code failed: " \o r.err>>}
  ELSE IF r.kind = "SREQ" THEN
       (IF Len(r.reqs) >= 1 /\ r.reqs[1] = <<r.uuid, r.seq, r.latest, r.ss, r.se>> THEN {}
        ELSE {<<"C02", "the first stream request does not carry exactly the stored vbUUID, seqno, snapshot range and end">>})
       \cup (IF r.rb < 0 THEN (IF Len(r.reqs) = 1 THEN {} ELSE {<<"C02", "a second stream request was sent although the first was accepted">>})
             ELSE IF Len(r.reqs) = 2 /\ r.reqs[2] = <<Branch(r.log, r.rb), r.rb, r.latest, r.rb, r.rb>> THEN {}
             ELSE {<<"C08", "after ROLLBACK(r) the stream is not re-requested from r on the branch that contains r with snapshot r..r">>})
       \* right behind the accepting answer the node sent every event from the resume point up to one past the position reached
       \cup (IF r.delivered = <<r.seq + 1>> THEN {}
             ELSE IF r.rb >= 0 THEN {<<"C08", "after a rollback an event at or below the position already reached was shown again (or the first new one was not)">>}
             ELSE {<<"C03", "the first event after the resume point was not delivered exactly once">>})
       \* offsets issued after the rollback carry the vBucket's current branch: the head of the failover log that came with the accepting answer
       \cup (IF r.rb >= 0 /\ r.delivered # <<>> /\ r.duuid # r.log[1][1]
             THEN {<<"C08", "after a rollback the offsets do not carry the vbUUID of the vBucket's current history branch">>} ELSE {})
  ELSE IF r.kind = "FID" THEN
       (IF r.req = r.want THEN {} ELSE {<<"C02", "a 64-bit field of the stored offset is altered in the stream request">>})
       \cup (IF r.cb = r.want4 THEN {} ELSE {<<"C02", "save + load through the Couchbase metadata backend alters a 64-bit field">>,
                                           <<"C01", "a vBucket's durable checkpoint is not the position saved for it (several vBuckets saved by one call)">>})
       \cup (IF r.file = r.want4 THEN {} ELSE {<<"C02", "save + load through the file metadata backend alters a 64-bit field">>})
       \cup (IF r.key = r.wantkey THEN {} ELSE {<<"C14", "the checkpoint document key is not <prefix><group>:checkpoint:<vbID>">>})
  ELSE {}
MInit == pos = 1 /\ bad = {}
MNext == /\ pos <= Len(Rows) /\ pos' = pos + 1
         /\ bad' = bad \cup {<<0, pos, m[1], m[2]>> : m \in Judge(Rows[pos])}
MSpec == MInit /\ [][MNext]_<<pos, bad>>
Done == (pos = Len(Rows) + 1) => PrintT(<<"VERDICT", Len(Rows), ToJson(bad)>>)
=============================================================================
