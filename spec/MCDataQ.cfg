SPECIFICATION Spec
CONSTANTS
  NVB = 2
  Hist <- HistA
  FoUuid <- FoA
  Savers = {"p", "c"}
  MaxSaves = 2
  MaxCrash = 1
  MaxAcks = 2
  AutoReset = "earliest"
  FailSaves = TRUE
  Focus = TRUE
  Record = FALSE
  Bugs = {}
VIEW view
INVARIANTS C01 C03 C04 C05 C06 C11 C14 StoreAgrees
CHECK_DEADLOCK FALSE
