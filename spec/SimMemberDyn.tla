----------------------------- MODULE SimMemberDyn -----------------------------
(* random behaviours of MemberDyn.tla as JSON schedules (labels, predicted events, predicted projection) *)
EXTENDS MemberDyn, Json
CONSTANT Depth
\* declare stability when the orchestrator has reached a consistent numbering; now and then ask what was requested is in effect
Useful(l) == /\ (Numbered /\ ~said) => l.a = "Stable"
             /\ (l.a = "Settled" => Len(hist) % 4 = 0)
SimNext == \E l \in Labels : Useful(l) /\ Step(l) /\ mon' = MonFold(mon, emitv')
                             /\ hist' = Append(hist, [l |-> l, evs |-> emitv', post |-> Post'])
SimSpec == Init /\ [][SimNext]_vars
DumpSched == (Len(hist) = Depth \/ (Len(hist) > 6 /\ ~ENABLED SimNext)) => PrintT(<<"SCHED", ToJson([cfg |-> [NVB |-> NVB, N |-> Cardinality(Inst)], steps |-> hist])>>)
=============================================================================
