------------------------------ MODULE MonChunk ------------------------------
(* Partition (Chunk.tla) evaluated by TLC on what the REAL helpers.ChunkSlice / VBucketDiscovery.Get
   returned: chunk.ndjson, one line per (n,t): {"n","t","runs":[[count,start0,size],...],"get_ok":bool}
   where runs is the run-length form of the member list (consecutive members whose chunks have the same
   size and follow each other without gap are one run). *)
EXTENDS Integers, Sequences, FiniteSets, TLC, Json
VARIABLES i, bad
Trace == ndJsonDeserialize("chunk.ndjson")
\* a run [count, start, size]: members m..m+count-1 have chunks [start + k*size, start + (k+1)*size)
RunOK(r) == r[1] >= 1 /\ r[3] >= 1
RunEnd(r) == r[2] + r[1] * r[3]
LineOK(e) ==
  LET rs == e.runs IN
  /\ Len(rs) >= 1
  /\ \A k \in DOMAIN rs : RunOK(rs[k])
  /\ rs[1][2] = 0
  /\ \A k \in 1..(Len(rs) - 1) : rs[k + 1][2] = RunEnd(rs[k])
  /\ RunEnd(rs[Len(rs)]) = e.n
  /\ \A k \in DOMAIN rs : rs[1][3] - rs[k][3] \in {0, 1}
  /\ e.members = e.t
  /\ e.get_ok
Init == i = 1 /\ bad = {}
Next == /\ i <= Len(Trace) /\ i' = i + 1
        /\ bad' = IF LineOK(Trace[i]) THEN bad ELSE bad \cup {<<Trace[i].n, Trace[i].t>>}
Spec == Init /\ [][Next]_<<i, bad>>
Some(S) == IF S = {} THEN <<0, 0>> ELSE CHOOSE x \in S : \A y \in S : x[1] < y[1] \/ (x[1] = y[1] /\ x[2] <= y[2])
Done == (i = Len(Trace) + 1) => PrintT(<<"VERDICT", Len(Trace), Cardinality(bad), Some(bad)>>)
=============================================================================
