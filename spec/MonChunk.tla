------------------------------ MODULE MonChunk ------------------------------
(* Partition (Chunk.tla) evaluated by TLC on what the REAL helpers.ChunkSlice / VBucketDiscovery.Get
   returned: chunk.ndjson, one line per (n,t): {"n","t","runs":[[count,start0,size],...],"contig","gs":[[member,start,size,contiguous],...],"full"}
   where runs is the run-length form of the member list (consecutive members whose chunks have the same
   size and follow each other without gap are one run). *)
EXTENDS Integers, Sequences, FiniteSets, TLC, Json
VARIABLES i, bad
Trace == ndJsonDeserialize("chunk.ndjson")
\* a run [count, start, size]: members m..m+count-1 have chunks [start + k*size, start + (k+1)*size)
RunOK(r) == r[1] >= 1 /\ r[3] >= 1
RunEnd(r) == r[2] + r[1] * r[3]
Sizes(e) == {e.n \div e.t, (e.n + e.t - 1) \div e.t}
\* helpers.ChunkSlice: the chunks in member order
SliceOK(e) ==
  LET rs == e.runs IN
  /\ Len(rs) >= 1 /\ e.contig
  /\ \A k \in DOMAIN rs : RunOK(rs[k]) /\ rs[k][3] \in Sizes(e)
  /\ rs[1][2] = 0
  /\ \A k \in 1..(Len(rs) - 1) : rs[k + 1][2] = RunEnd(rs[k])
  /\ RunEnd(rs[Len(rs)]) = e.n
  /\ e.members = e.t
\* VBucketDiscovery.Get: g = <<member, first vBucket, size, contiguous>> for every member that was asked
GetOK(e) ==
  LET gs == e.gs IN
  /\ \A k \in DOMAIN gs : gs[k][3] \in Sizes(e) /\ gs[k][3] >= 1 /\ gs[k][4] = 1 /\ gs[k][2] >= 0 /\ gs[k][2] + gs[k][3] <= e.n
  /\ \A j, k \in DOMAIN gs : j < k => (gs[j][2] + gs[j][3] <= gs[k][2] \/ gs[k][2] + gs[k][3] <= gs[j][2])        \* disjoint
  /\ \A j, k \in DOMAIN gs : gs[j][1] < gs[k][1] => gs[j][2] < gs[k][2]                                            \* ascending with the member number
  /\ (e.full => Len(gs) = e.t /\ gs[1][2] = 0 /\ \A k \in 1..(Len(gs) - 1) : gs[k + 1][2] = gs[k][2] + gs[k][3])     \* exact cover
  /\ (e.full => gs[Len(gs)][2] + gs[Len(gs)][3] = e.n)
LineOK(e) == SliceOK(e) /\ GetOK(e)
Init == i = 1 /\ bad = {}
Next == /\ i <= Len(Trace) /\ i' = i + 1
        /\ bad' = IF LineOK(Trace[i]) THEN bad ELSE bad \cup {<<Trace[i].n, Trace[i].t>>}
Spec == Init /\ [][Next]_<<i, bad>>
Some(S) == IF S = {} THEN <<0, 0>> ELSE CHOOSE x \in S : \A y \in S : x[1] < y[1] \/ (x[1] = y[1] /\ x[2] <= y[2])
Done == (i = Len(Trace) + 1) => PrintT(<<"VERDICT", Len(Trace), Cardinality(bad), Some(bad)>>)
=============================================================================
