SPECIFICATION Spec
CONSTANTS Majors = {5, 6, 7} Minors = {0, 2, 5, 6} Patches = {0, 1} Builds = {0, 1, 10080}
INVARIANTS Trichotomy Antisymmetry Transitivity IsLexOrder GatesMonotone RoundTrip Emit
CHECK_DEADLOCK FALSE
