SPECIFICATION Spec
CONSTANTS
  NVB = 1
  InitLog <- EmptyLog
  MaxSeq = 3
  Keys = {"user"}
  Kinds = {"mut"}
  OldEvents = FALSE
  BadEvents = FALSE
  FoUuid <- Fo10
  Savers = {"p"}
  MaxSaves = 0
  MaxCrash = 0
  MaxAcks = 1
  MaxGen = 6
  MaxNotify = 0
  MaxEnds = 1
  MaxFail = 0
  AutoReset = "earliest"
  Finite = FALSE
  AutoCkpt = FALSE
  Infos <- NoInfos
  Info0 <- Info11
  EndCauses = {"statechanged"}
  Hold = FALSE
  AllowClose = FALSE
  Rollbacks = TRUE
  FailSaves = FALSE
  Focus = TRUE
  Record = FALSE
  ReadOnly = FALSE
  AckSplit = FALSE
  HoldCb = FALSE
  RM = FALSE
  Slots = 1
  RmUuids = {1, 2}
  RmMonotone = FALSE
  Scrapes = FALSE
  HookScrapes = FALSE
  Marking = TRUE
  WindAt = 0
  Gaps = {}
  Bugs = {}
  Target = "@TARGET@"
  DeathOK = @DEATHOK@
VIEW view
INVARIANTS WitnessInv
CHECK_DEADLOCK FALSE
