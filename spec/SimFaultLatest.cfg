SPECIFICATION SimSpec
CONSTANTS
  NVB = 2
  InitLog <- OldLog
  MaxSeq = 2
  Keys = {"user"}
  Kinds = {"mut"}
  OldEvents = FALSE
  BadEvents = FALSE
  FoUuid <- Fo10
  Savers = {"p"}
  MaxSaves = 1
  MaxCrash = 1
  MaxAcks = 2
  MaxGen = 3
  MaxNotify = 0
  MaxEnds = 0
  MaxFail = 3
  AutoReset = "latest"
  Finite = FALSE
  AutoCkpt = FALSE
  Infos <- NoInfos
  Info0 <- Info11
  EndCauses = {}
  Hold = FALSE
  AllowClose = FALSE
  Rollbacks = FALSE
  FailSaves = FALSE
  Focus = TRUE
  Record = TRUE
  ReadOnly = FALSE
  AckSplit = FALSE
  HoldCb = FALSE
  RM = FALSE
  Slots = 1
  RmUuids = {1, 2}
  RmMonotone = FALSE
  Scrapes = FALSE
  HookScrapes = FALSE
  Marking = FALSE
  WindAt = 34
  Gaps = {}
  Bugs = {}
  D = 48
INVARIANTS DumpSched
CHECK_DEADLOCK FALSE
