----------------------------- MODULE ReplayCore -----------------------------
(* Runs given label sequences (labels.ndjson: one JSON array of labels per line) through Core and
   prints each as a schedule with the specification's predictions - used for hand-written regression
   scenarios and for turning a TLC counterexample into something the driver can execute. A label that
   is not enabled ends the schedule there (the prefix is printed, complete = FALSE). *)
EXTENDS MCBase, Json
VARIABLES j, k
Scheds == ndJsonDeserialize("labels.ndjson")
RInit == Init /\ j \in 1..Len(Scheds) /\ k = 1
RNext == /\ k <= Len(Scheds[j])
         /\ Step(Scheds[j][k])
         /\ marks' = marks
         /\ obs' = Fold(obs, emitv' \o StateEvs)
         /\ hist' = Append(hist, [l |-> Scheds[j][k], evs |-> emitv' \o StateEvs, post |-> Post'])
         /\ k' = k + 1 /\ j' = j
RSpec == RInit /\ [][RNext]_<<vars, j, k>>
CfgJson == [NVB |-> NVB, InitLog |-> InitLog, FoUuid |-> FoUuid, AutoReset |-> AutoReset, Finite |-> Finite,
            AutoCkpt |-> AutoCkpt, Info0 |-> Info0, Slots |-> Slots, ReadOnly |-> ReadOnly, HookScrapes |-> HookScrapes, HoldCb |-> HoldCb]
Stuck == k <= Len(Scheds[j]) /\ ~ENABLED RNext
DumpSched == (k > Len(Scheds[j]) \/ Stuck) =>
               PrintT(<<"SCHED", ToJson([cfg |-> CfgJson, steps |-> hist, j |-> j, complete |-> k > Len(Scheds[j])])>>)
=============================================================================
