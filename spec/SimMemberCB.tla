----------------------------- MODULE SimMemberCB -----------------------------
(* random behaviours of MemberCB.tla as JSON schedules (labels, predicted events, predicted projection) *)
EXTENDS MemberCB, Json
CONSTANT D
Nop == /\ UNCHANGED <<index, cas, docs, st, order, last, info, pc, snap, snapCas, filt, rounds, counts, events, announced, marks, emitv, mon>>
       /\ hist' = Append(hist, [l |-> [a |-> "Nop"]])
\* prefer to finish what is in flight and to declare stability when it is reached: otherwise random walks rarely get there
Useful(l) == /\ (Settled /\ ~announced /\ Live # {}) => l.a = "Stable"
             /\ l.a # "Heartbeat" \/ Len(hist) % 5 = 0
SimNext == (\E l \in Labels : Useful(l) /\ Step(l) /\ mon' = MonFold(mon, emitv') /\ marks' = marks
                              /\ hist' = Append(hist, [l |-> l, evs |-> emitv', post |-> Post'])) \/ Nop
SimSpec == Init /\ [][SimNext]_vars
DumpSched == (Len(hist) = D) => PrintT(<<"SCHED", ToJson([cfg |-> [NVB |-> NVB, N |-> Cardinality(Inst)], steps |-> hist])>>)
=============================================================================
