----------------------------- MODULE WitMemberSD -----------------------------
(* shortest behaviour of MemberSD through the situation named Target that ends with a declared-stable group *)
EXTENDS MemberSD, Json
CONSTANT Target
WitnessInv == ~(Target \in marks /\ announced /\ Len(hist) > 0 /\ hist[Len(hist)].a = "Stable")
              \/ (PrintT(<<"WITNESS", Target, ToJson(hist)>>) /\ FALSE)
WNext == \E l \in Labels : Step(l) /\ marks' = marks \cup NewMarks(l @@ [i |-> 1]) /\ mon' = MonFold(mon, emitv') /\ hist' = Append(hist, l)
WSpec == Init /\ [][WNext]_vars
=============================================================================
