------------------------------ MODULE StreamReq ------------------------------
(***************************************************************************************************************)
(* C02 / C08 at the wire - couchbase/client.go OpenStream l.673-739 and openStreamWithRollback l.609-671:          *)
(* the first DCP_STREAM_REQ of a vBucket carries exactly the stored offset (vbUUID, seqno, snapshot range) and     *)
(* the end the caller gave; when the server answers ROLLBACK(r) the client reads the failover log and sends a      *)
(* second request from r on the history branch that contains r (the newest failover entry whose start is <= r),    *)
(* snapshot r..r, same end; the position it had reached becomes the observer's catch-up mark.                      *)
(* TLC enumerates failover logs (newest first, strictly decreasing, ending at 0), offsets and rollback answers,    *)
(* checks the transcription of the loop against the branch rule, and prints one row per state for replay into     *)
(* the real client over a real gocbcore DCP agent against the simulated node (MonWire.tla judges the requests).    *)
(***************************************************************************************************************)
EXTENDS Integers, Sequences, FiniteSets, TLC, Json
CONSTANTS MaxSeq, MaxLog

\* failover logs: <<uuid, seq>> newest first; uuids 11, 12, 13 (newest = highest)
Starts(n) == {s \in [1..n -> 0..MaxSeq] : s[n] = 0 /\ \A k \in 1..(n - 1) : s[k] > s[k + 1]}
Logs == UNION {{[k \in 1..n |-> <<10 + (n - k + 1), s[k]>>] : s \in Starts(n)} : n \in 1..MaxLog}

VARIABLES log, uuid, seq, ss, se, latest, rb      \* rb = -1: the server accepts the first request
vars == <<log, uuid, seq, ss, se, latest, rb>>
Init == /\ log \in Logs /\ uuid \in {10, 11, 12, 13} /\ seq \in 0..MaxSeq /\ ss \in 0..seq /\ se \in seq..MaxSeq
        /\ latest \in {MaxSeq, 0 - 2}                 \* the end: a sampled high seqno, or unbounded (0xffff...: -2 stands for it)
        /\ rb \in (0 - 1)..seq
Next == UNCHANGED vars
Spec == Init /\ [][Next]_vars

First == <<uuid, seq, latest, ss, se>>
\* the loop of openStreamWithRollback: for i := len-1 .. 0: if r >= log[i].seq then target = log[i].uuid
RECURSIVE Loop(_, _, _)
Loop(i, r, t) == IF i = 0 THEN t ELSE Loop(i - 1, r, IF r >= log[i][2] THEN log[i][1] ELSE t)
Target(r) == Loop(Len(log), r, 0)
Second(r) == <<Target(r), r, latest, r, r>>
\* the branch that contains r: the newest entry that started at or before r
Branch(r) == log[CHOOSE k \in 1..Len(log) : log[k][2] <= r /\ \A j \in 1..(k - 1) : log[j][2] > r][1]
Prop == rb >= 0 => Target(rb) = Branch(rb)
Emit == PrintT(<<"SREQ", ToJson([log |-> log, uuid |-> uuid, seq |-> seq, ss |-> ss, se |-> se, latest |-> latest, rb |-> rb])>>)
=============================================================================
