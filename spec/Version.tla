------------------------------- MODULE Version -------------------------------
(***************************************************************************)
(* C18 - couchbase/version.go transcribed: Higher / Equal / Lower on        *)
(* (major, minor, patch, build), nodeVersionFromString over version         *)
(* strings, and the three feature gates of dcp.go / stream.go.             *)
(* TLC enumerates every pair of the grid as initial states (transitivity   *)
(* quantifies over a third); every state prints a table row that the Go    *)
(* driver replays into the real methods; MonVersion.tla judges what the    *)
(* real methods returned.                                                  *)
(***************************************************************************)
EXTENDS Integers, Sequences, FiniteSets, TLC
CONSTANTS Majors, Minors, Patches, Builds
VARIABLES a, b

Grid == Majors \X Minors \X Patches \X Builds
V550 == <<5, 5, 0, 0>>   V650 == <<6, 5, 0, 0>>   V720 == <<7, 2, 0, 0>>

Equal(v, o) == v[1] = o[1] /\ v[2] = o[2] /\ v[3] = o[3] /\ v[4] = o[4]
\* Higher, statement by statement
Higher(v, o) ==
  IF v[1] > o[1] THEN TRUE ELSE IF v[1] < o[1] THEN FALSE
  ELSE IF v[2] > o[2] THEN TRUE ELSE IF v[2] < o[2] THEN FALSE
  ELSE IF v[3] > o[3] THEN TRUE ELSE IF v[3] < o[3] THEN FALSE
  ELSE IF v[4] > o[4] THEN TRUE ELSE FALSE
Lower(v, o) == ~Higher(v, o) /\ ~Equal(v, o)
LexGT(v, o) == \E i \in 1..4 : v[i] > o[i] /\ \A j \in 1..(i - 1) : v[j] = o[j]

\* the gates (dcp.go newDcp l.279-285, stream.go NewStream l.501)
Expiry(v) == Higher(v, V650) \/ Equal(v, V650)
ChangeStreams(v) == Higher(v, V720) \/ Equal(v, V720)
SerialClose(v) == Lower(v, V550)

Trichotomy == Cardinality({x \in {"h", "e", "l"} : (x = "h" /\ Higher(a, b)) \/ (x = "e" /\ Equal(a, b)) \/ (x = "l" /\ Lower(a, b))}) = 1
Antisymmetry == (Higher(a, b) => Lower(b, a) /\ ~Higher(b, a)) /\ (Lower(a, b) => Higher(b, a)) /\ (Equal(a, b) <=> a = b)
Transitivity == \A c \in Grid : Higher(a, b) /\ Higher(b, c) => Higher(a, c)
IsLexOrder == Higher(a, b) = LexGT(a, b)
GatesMonotone == (Higher(a, b) \/ Equal(a, b)) =>
                   /\ (Expiry(b) => Expiry(a)) /\ (ChangeStreams(b) => ChangeStreams(a)) /\ (SerialClose(a) => SerialClose(b))

\* ---- version strings -------------------------------------------------------------------------------------
Render(t) == ToString(t[1]) \o "." \o ToString(t[2]) \o "." \o ToString(t[3]) \o "-" \o ToString(t[4]) \o "-enterprise"
\* nodeVersionFromString on a string given as its "." fields, the third as its "-" parts; a part is a Nat or the
\* string "x" (not a number).  Result: <<"ok", tuple>> or <<"err">>
IsNum(p) == p \in Nat
Parse(fields) ==
  IF ~IsNum(fields[1][1]) THEN <<"err">>
  ELSE IF Len(fields) = 1 THEN <<"ok", <<fields[1][1], 0, 0, 0>>>>
  ELSE IF ~IsNum(fields[2][1]) THEN <<"err">>
  ELSE IF Len(fields) = 2 THEN <<"ok", <<fields[1][1], fields[2][1], 0, 0>>>>
  ELSE LET nb == fields[3] IN
       IF ~IsNum(nb[1]) THEN <<"err">>
       ELSE IF Len(nb) = 1 THEN <<"ok", <<fields[1][1], fields[2][1], nb[1], 0>>>>
       ELSE IF ~IsNum(nb[2]) THEN <<"ok", <<fields[1][1], fields[2][1], nb[1], 0>>>>
       ELSE <<"ok", <<fields[1][1], fields[2][1], nb[1], nb[2]>>>>
FieldsOf(t) == <<<<t[1]>>, <<t[2]>>, <<t[3], t[4], "enterprise">>>>
RoundTrip == Parse(FieldsOf(a)) = <<"ok", a>>

Init == a \in Grid /\ b \in Grid
Next == UNCHANGED <<a, b>>
Spec == Init /\ [][Next]_<<a, b>>
Emit == PrintT(<<"VER", a, b, Render(a)>>)
=============================================================================
