SPECIFICATION RSpec
CONSTANTS MaxRounds = 40 MaxStarts = 9 MaxStops = 9 Record = TRUE
INVARIANTS DumpSched C19
CHECK_DEADLOCK FALSE
