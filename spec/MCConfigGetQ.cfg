SPECIFICATION Spec
CONSTANTS MaxKeys = 1
INVARIANTS Prop Emit
CHECK_DEADLOCK FALSE
