------------------------------ MODULE MonTrace ------------------------------
(***************************************************************************)
(* The property monitors of Props evaluated by TLC over the observable     *)
(* events recorded from the REAL code (mon.ndjson in the working           *)
(* directory: one event per line; {"ev":"Reset","run":n} starts a run).    *)
(* The trace spec is always enabled - it constrains nothing, it only lets  *)
(* TLC compute the monitor state line by line.  New violations are         *)
(* collected as <<run, line, property, reason>> and printed at the end.    *)
(***************************************************************************)
EXTENDS Props, Json

VARIABLES i, run, obs, bad

Trace == ndJsonDeserialize("mon.ndjson")

Init == i = 1 /\ run = 0 /\ obs = ObsInit /\ bad = {}

Next ==
  /\ i <= Len(Trace)
  /\ i' = i + 1
  /\ LET e == Trace[i] IN
     IF e.ev = "Reset"
     THEN /\ run' = e.run /\ obs' = ObsInit /\ bad' = bad
     ELSE LET o2 == Apply(obs, e) IN
          /\ run' = run /\ obs' = o2
          /\ bad' = bad \cup {<<run, i, x[1], x[2]>> : x \in (o2.viol \ obs.viol)}

Spec == Init /\ [][Next]_<<i, run, obs, bad>>

Done == (i = Len(Trace) + 1) => PrintT(<<"VERDICT", Len(Trace), ToJson(bad)>>)
=============================================================================
