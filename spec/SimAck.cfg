SPECIFICATION SimSpec
CONSTANTS
  NVB = 2
  InitLog <- HistA
  MaxSeq = 3
  Keys = {"user"}
  Kinds = {"mut", "sys", "adv"}
  OldEvents = FALSE
  BadEvents = FALSE
  FoUuid <- Fo10
  Savers = {"p", "c"}
  MaxSaves = 4
  MaxCrash = 1
  MaxAcks = 4
  MaxGen = 2
  MaxNotify = 0
  MaxEnds = 0
  MaxFail = 0
  AutoReset = "earliest"
  Finite = FALSE
  AutoCkpt = FALSE
  Infos <- NoInfos
  Info0 <- Info11
  EndCauses = {}
  Hold = FALSE
  AllowClose = FALSE
  Rollbacks = FALSE
  FailSaves = TRUE
  Focus = TRUE
  Record = TRUE
  ReadOnly = FALSE
  AckSplit = TRUE
  HoldCb = FALSE
  RM = FALSE
  Slots = 1
  RmUuids = {1, 2}
  RmMonotone = FALSE
  Scrapes = FALSE
  HookScrapes = FALSE
  Marking = FALSE
  WindAt = 34
  Gaps = {}
  Bugs = {}
  D = 48
INVARIANTS DumpSched
CHECK_DEADLOCK FALSE
