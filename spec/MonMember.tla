------------------------------ MODULE MonMember ------------------------------
(* the C10 monitor (MemberMon.tla) evaluated by TLC on the events recorded from groups of real library instances *)
EXTENDS MemberMon, Json
VARIABLES pos, run, m, bad
Trace == ndJsonDeserialize("mon.ndjson")
MInit == pos = 1 /\ run = 0 /\ m = MonInit /\ bad = {}
MNext == /\ pos <= Len(Trace) /\ pos' = pos + 1
         /\ LET e == Trace[pos] IN
            IF e.ev = "Reset" THEN run' = e.run /\ m' = MonInit /\ bad' = bad
            ELSE LET m2 == MonApply(m, e) IN
                 /\ run' = run /\ m' = m2 /\ bad' = bad \cup {<<run, pos, x[1], x[2]>> : x \in (m2.viol \ m.viol)}
MSpec == MInit /\ [][MNext]_<<pos, run, m, bad>>
Done == (pos = Len(Trace) + 1) => PrintT(<<"VERDICT", Len(Trace), ToJson(bad)>>)
=============================================================================
