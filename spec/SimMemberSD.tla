----------------------------- MODULE SimMemberSD -----------------------------
(* random behaviours of MemberSD.tla as JSON schedules (labels, predicted events, predicted projection) *)
EXTENDS MemberSD, Json
CONSTANT Depth
\* prefer to deliver pending election callbacks, let time pass, and declare stability when it is reached
Useful(l) == /\ (quiet >= Settle /\ Informed /\ ~announced /\ Up # {}) => l.a = "Stable"
             /\ (l.a \in {"Start", "Die"} => (Len(hist) % 3 = 0 \/ quiet >= Settle))
SimNext == \E l \in Labels : Useful(l) /\ Step(l) /\ mon' = MonFold(mon, emitv') /\ marks' = marks
                             /\ hist' = Append(hist, [l |-> l, evs |-> emitv', post |-> Post'])
SimSpec == Init /\ [][SimNext]_vars
DumpSched == (Len(hist) = Depth \/ (Len(hist) > 10 /\ ~ENABLED SimNext)) => PrintT(<<"SCHED", ToJson([cfg |-> [NVB |-> NVB, N |-> Cardinality(Inst), P |-> P, D |-> D], steps |-> hist])>>)
=============================================================================
