----------------------------- MODULE SimMemberSD -----------------------------
(* random behaviours of MemberSD.tla as JSON schedules (labels, predicted events, predicted projection) *)
EXTENDS MemberSD, Json
CONSTANT Depth
\* prefer to deliver pending election callbacks, let time pass, and declare stability when it is reached
Useful(l) == /\ (quiet >= Settle /\ Informed /\ ~announced /\ Up # {}) => l.a = "Stable"
             \* build a group of three, let it become stable, then one change at a time (mostly): random walks otherwise
             \* rarely stay quiet for Settle units
             /\ (l.a = "Start" => (Cardinality(Up) < 3 \/ quiet >= Settle \/ Len(hist) % 7 = 0))
             /\ (l.a = "Restart" => (quiet >= Settle \/ Len(hist) % 5 = 0))
             /\ (l.a = "Die" => (Cardinality(Up) >= 3 /\ (quiet >= Settle \/ Len(hist) % 11 = 0)))
SimNext == \E l \in Labels : Useful(l) /\ Step(l) /\ mon' = MonFold(mon, emitv') /\ marks' = marks
                             /\ hist' = Append(hist, [l |-> l, evs |-> emitv', post |-> Post'])
SimSpec == Init /\ [][SimNext]_vars
DumpSched == (Len(hist) = Depth \/ (Len(hist) > 10 /\ ~ENABLED SimNext)) => PrintT(<<"SCHED", ToJson([cfg |-> [NVB |-> NVB, N |-> Cardinality(Inst), P |-> P, D |-> D], steps |-> hist])>>)
=============================================================================
