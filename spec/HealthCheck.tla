---------------------------- MODULE HealthCheck ----------------------------
(***************************************************************************)
(* couchbase/healthcheck.go at gate granularity. Gates: the Ping call of    *)
(* the client (the driver decides when it returns and with what).          *)
(*   run():  loop { select { ctx.Done: return ; ticker.C: round } }        *)
(*   round:  up to 5 pings; success ends the round; a failure before the   *)
(*           5th waits 1 s (or until Stop) and pings again; the 5th        *)
(*           failure panics.                                               *)
(*   Start/Stop are guarded by sync.Once; Stop cancels and waits for run.  *)
(* Observable events: Start, Ping(n-th of the round), PingRet(ok), Died,   *)
(* StopCall, StopRet.  The monitor is a function of the events only.        *)
(***************************************************************************)
EXTENDS HealthMon
CONSTANTS MaxRounds, MaxStarts, MaxStops, Record

VARIABLES
  started,     \* startOnce done
  running,     \* the run goroutine exists
  cancelled,   \* ctx cancelled
  attempt,     \* 0: between rounds; 1..5: that ping of the round is in flight or its retry wait is
  phase,       \* "idle" | "ping" (parked in client.Ping) | "wait" (retry wait) 
  rounds, nstart, nstop,
  stopping,    \* a Stop call is blocked in wg.Wait
  stopdone,    \* stopOnce done
  dead,
  emitv, mon, hist

vars == <<started, running, cancelled, attempt, phase, rounds, nstart, nstop, stopping, stopdone, dead, emitv, mon, hist>>
view == <<started, running, cancelled, attempt, phase, rounds, nstart, nstop, stopping, stopdone, dead, mon>>

\* ---- the code ------------------------------------------------------------------------------------------------
Init == /\ started = FALSE /\ running = FALSE /\ cancelled = FALSE /\ attempt = 0 /\ phase = "idle"
        /\ rounds = 0 /\ nstart = 0 /\ nstop = 0 /\ stopping = FALSE /\ stopdone = FALSE /\ dead = FALSE
        /\ emitv = <<>> /\ mon = MonInit /\ hist = <<>>

\* run() observes the cancellation at its next select: it exits; a blocked Stop returns
ExitIfCancelled(evs) ==
  IF cancelled' /\ phase' \in {"idle", "wait"}
  THEN /\ running' = FALSE /\ stopping' = FALSE
       /\ emitv' = evs \o (IF stopping THEN <<[ev |-> "StopRet"]>> ELSE <<>>)
  ELSE /\ UNCHANGED <<running, stopping>> /\ emitv' = evs

Start == /\ ~dead /\ nstart < MaxStarts /\ nstart' = nstart + 1
         /\ IF started THEN UNCHANGED <<started, running>> ELSE started' = TRUE /\ running' = TRUE
         /\ emitv' = <<[ev |-> "Start"]>>
         /\ UNCHANGED <<cancelled, attempt, phase, rounds, nstop, stopping, stopdone, dead>>

\* the ticker fires and the first ping of a round is issued (parks in client.Ping)
Tick == /\ ~dead /\ running /\ phase = "idle" /\ ~cancelled /\ rounds < MaxRounds
        /\ rounds' = rounds + 1 /\ attempt' = 1 /\ phase' = "ping"
        /\ emitv' = <<[ev |-> "Ping"]>>
        /\ UNCHANGED <<started, running, cancelled, nstart, nstop, stopping, stopdone, dead>>

\* client.Ping returns
PingRet(ok) ==
  /\ ~dead /\ phase = "ping"
  /\ UNCHANGED <<started, rounds, nstart, nstop, stopdone, cancelled>>
  /\ IF ok THEN /\ attempt' = 0 /\ phase' = "idle" /\ UNCHANGED dead
                /\ ExitIfCancelled(<<[ev |-> "PingRet", ok |-> TRUE]>>)
     ELSE IF attempt = 5 THEN /\ dead' = TRUE /\ phase' = "idle" /\ attempt' = 0
                              /\ emitv' = <<[ev |-> "PingRet", ok |-> FALSE], [ev |-> "Died"]>>
                              /\ UNCHANGED <<running, stopping>>
     ELSE /\ phase' = "wait" /\ UNCHANGED <<attempt, dead>>
          /\ ExitIfCancelled(<<[ev |-> "PingRet", ok |-> FALSE]>>)

\* the 1 s retry wait elapses: next ping of the round
Retry == /\ ~dead /\ running /\ phase = "wait" /\ ~cancelled
         /\ attempt' = attempt + 1 /\ phase' = "ping"
         /\ emitv' = <<[ev |-> "Ping"]>>
         /\ UNCHANGED <<started, running, cancelled, rounds, nstart, nstop, stopping, stopdone, dead>>

\* Stop(): first call cancels and waits for run() to exit; it returns at once when run is between rounds or in a
\* retry wait, otherwise when the ping in flight has returned
Stop ==
  /\ ~dead /\ started /\ nstop < MaxStops /\ ~stopping /\ nstop' = nstop + 1      \* (Stop before any Start is not explored)
  /\ UNCHANGED <<started, rounds, nstart, dead>>
  /\ IF stopdone THEN /\ emitv' = <<[ev |-> "StopCall"], [ev |-> "StopRet"]>>
                      /\ UNCHANGED <<cancelled, running, stopping, stopdone, attempt, phase>>
     ELSE /\ stopdone' = TRUE
          /\ IF ~started THEN /\ emitv' = <<[ev |-> "StopCall"], [ev |-> "StopRet"]>>
                              /\ UNCHANGED <<cancelled, running, stopping, attempt, phase>>
             ELSE /\ cancelled' = TRUE
                  /\ IF phase = "ping" THEN /\ stopping' = TRUE /\ emitv' = <<[ev |-> "StopCall"]>>
                                            /\ UNCHANGED <<running, attempt, phase>>
                     ELSE /\ running' = FALSE /\ UNCHANGED stopping
                          /\ attempt' = 0 /\ phase' = "idle"
                          /\ emitv' = <<[ev |-> "StopCall"], [ev |-> "StopRet"]>>

Quiesce == /\ phase # "ping" /\ emitv' = <<[ev |-> "Quiesced"]>> /\ hist # <<>> /\ hist[Len(hist)].l.a # "Quiesce"
           /\ UNCHANGED <<started, running, cancelled, attempt, phase, rounds, nstart, nstop, stopping, stopdone, dead>>

Step(l) == CASE l.a = "Start" -> Start [] l.a = "Tick" -> Tick [] l.a = "PingRet" -> PingRet(l.ok)
             [] l.a = "Retry" -> Retry [] l.a = "Stop" -> Stop [] l.a = "Quiesce" -> Quiesce
Labels == [a : {"Start", "Tick", "Retry", "Stop", "Quiesce"}] \cup [a : {"PingRet"}, ok : BOOLEAN]
Post == [phase |-> phase, dead |-> dead, running |-> running]
Next == \E l \in Labels : /\ Step(l) /\ mon' = Fold(mon, emitv')
                          /\ hist' = Append(hist, [l |-> l, evs |-> emitv', post |-> Post'])
Spec == Init /\ [][Next]_vars
C19 == mon.viol = {}
\* fail-stop exactly on five consecutive failures of a round
DieIff == dead <=> mon.dead
=============================================================================
