SPECIFICATION RSpec
CONSTANTS
  NVB = 1
  InitLog <- EmptyLog
  MaxSeq = 4
  Keys = {"user", "conn", "txn"}
  Kinds = {"mut", "del", "exp", "sys", "adv"}
  OldEvents = TRUE
  BadEvents = TRUE
  FoUuid <- Fo10
  Savers = {"p"}
  MaxSaves = 10
  MaxCrash = 0
  MaxAcks = 10
  MaxGen = 4
  MaxNotify = 0
  MaxEnds = 0
  MaxFail = 0
  AutoReset = "earliest"
  Finite = FALSE
  AutoCkpt = FALSE
  Infos <- NoInfos
  Info0 <- Info11
  EndCauses = {}
  Hold = FALSE
  AllowClose = TRUE
  Rollbacks = FALSE
  FailSaves = FALSE
  Focus = TRUE
  Record = TRUE
  ReadOnly = FALSE
  AckSplit = FALSE
  HoldCb = FALSE
  RM = TRUE
  Slots = 2
  RmUuids = {1, 2}
  RmMonotone = TRUE
  Scrapes = FALSE
  HookScrapes = FALSE
  Marking = FALSE
  WindAt = 0
  Gaps = {}
  Bugs = {}
INVARIANTS DumpSched
CHECK_DEADLOCK FALSE
