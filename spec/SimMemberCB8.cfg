SPECIFICATION SimSpec
CONSTANTS Inst = {1, 2, 3, 4, 5, 6, 7, 8} NVB = 8 K = 1 MaxEvents = 11 Quiet = TRUE Marking = FALSE Record = TRUE D = 120
INVARIANTS DumpSched
CHECK_DEADLOCK FALSE
