------------------------------ MODULE MonConfig ------------------------------
(* C17: the properties of Config.tla / ConfigGet.tla / DataUnit.tla / EnvSubst.tla evaluated by TLC on what the real
   functions of go-dcp returned for the rows those specifications printed (mon.ndjson, written by vfunc -what config) *)
EXTENDS Integers, Sequences, FiniteSets, TLC, Json
C == INSTANCE Config WITH MaxSet <- 0, chc <- 0, env <- 0, cur <- 0, first <- 0, pc <- 0
G == INSTANCE ConfigGet WITH MaxKeys <- 0, which <- 0, main <- 0, present <- 0
D == INSTANCE DataUnit WITH IntParts <- {}, Fracs <- {}, Units <- {}, kind <- 0, ip <- 0, frac <- 0, sep <- 0, lead <- 0, mid <- 0, unit <- 0
VARIABLES pos, bad
Rows == ndJsonDeserialize("mon.ndjson")
Has(r, f) == f \in DOMAIN r
SeqSet(s) == {s[k] : k \in 1..Len(s)}

Judge(r) ==
  IF Has(r, "err") THEN {"the real code panicked: " \o r.err}
  ELSE IF r.kind = "CFG" THEN
       (IF C!Filled(r.ch, r.env, r.out1) THEN {} ELSE {"an option with a documented default is left unset"})
       \cup (IF C!Kept(r.ch, r.env, r.out1) THEN {} ELSE {"an explicitly set value was altered"})
       \cup (IF C!Defaulted(r.ch, r.env, r.out1) THEN {} ELSE {"an unset option did not get its documented default"})
       \cup (IF C!EnvWins(r.ch, r.env, r.out1) THEN {} ELSE {"the environment override did not take precedence"})
       \cup (IF r.out2 = r.out1 THEN {} ELSE {"applying the defaults twice differs from applying them once"})
  ELSE IF r.kind = "GET" THEN
       (IF G!Holds(r.which, r.main, SeqSet(r.present), r.out) THEN {} ELSE {"derived " \o r.which \o " settings: a field is not (override if present, else inherited / default)"})
  ELSE IF r.kind = "UNIT" THEN
       (IF r.k = "plain" THEN (IF r.out = r.ip /\ r.outInt = r.ip /\ r.outUint = r.ip THEN {} ELSE {"a plain integer does not resolve to itself"})
        ELSE IF r.out = D!Expected(r.ip, r.frac, r.unit) THEN {} ELSE {"a size string does not resolve to number x 1024^k truncated"})
  ELSE IF r.kind = "SUBST" THEN
       (IF \A k \in 1..Len(r.out) : r.out[k] = r.want THEN {} ELSE {"a placeholder of a set variable was not replaced at every occurrence (or an unset one was)"})
  ELSE {}

MInit == pos = 1 /\ bad = {}
MNext == /\ pos <= Len(Rows) /\ pos' = pos + 1
         /\ bad' = bad \cup {<<0, pos, "C17", m>> : m \in Judge(Rows[pos])}
MSpec == MInit /\ [][MNext]_<<pos, bad>>
Done == (pos = Len(Rows) + 1) => PrintT(<<"VERDICT", Len(Rows), ToJson(bad)>>)
=============================================================================
