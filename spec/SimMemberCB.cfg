SPECIFICATION SimSpec
CONSTANTS Inst = {1, 2, 3, 4} NVB = 8 K = 1 MaxEvents = 6 Quiet = FALSE Marking = FALSE Record = TRUE D = 60
INVARIANTS DumpSched
CHECK_DEADLOCK FALSE
