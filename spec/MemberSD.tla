------------------------------ MODULE MemberSD ------------------------------
(***************************************************************************************************************)
(* Leader-assigned numbering (membership type kubernetesHa): servicediscovery/service_discovery.go of every       *)
(* instance of a group, driven by its two free-running loops, plus the election callbacks                          *)
(* (stream/leader_election.go OnBecomeLeader / OnBecomeFollower) that the environment (the Kubernetes lease)      *)
(* delivers.                                                                                                      *)
(*                                                                                                               *)
(*   StartHeartbeat l.104-146  every 5 s: ping the leader (failure: ReassignLeader = reconnect + register, on      *)
(*                             failure forget the leader); ping every registered service, remove the failing ones  *)
(*   StartMonitor   l.152-181  after rebalanceDelay, every 5 s, leader only: followers sorted by cluster join time; *)
(*                             SetInfo(1, n+1) on itself, Rebalance(k+2, n+1) to the k-th follower                  *)
(*   SetInfo        l.213-226  publish on the bus only when the numbering differs from the one in effect            *)
(*   rpc Handler.Register  : the leader adds the follower as a service; Handler.Rebalance : SetInfo on the follower *)
(*                                                                                                               *)
(* Time. Both loops of every instance have the same period P (5 s); the monitor loop is shifted by D               *)
(* (rebalanceDelay). The model counts time in units of 5 s / P; an instance started in unit u has its heart-beat      *)
(* ticks at u + P k (k >= 1) and its monitor ticks at u + D + P k (k >= 1); ticks that fall into the same unit      *)
(* happen in order of the instance number (the rig starts instance i a few milliseconds x i into its unit).        *)
(* Tock advances the clock by one unit and runs the ticks that are due; everything else (starts, deaths, election  *)
(* callbacks) happens between units.                                                                               *)
(***************************************************************************************************************)
EXTENDS MemberMon
CONSTANTS P,          \* period of both loops in units (5 s)
          D,          \* rebalanceDelay in units
          MaxEvents,  \* starts + deaths
          Settle,     \* units without change after which the environment declares the group stable
          Marking,    \* BOOLEAN: record in marks the interesting situations a behaviour goes through (bin/mkwitness)
          Record


VARIABLES
  st,        \* [Inst -> "off" | "up" | "dead"]
  order,     \* instances in start order (cluster join times)
  ph,        \* [Inst -> 0..P-1] unit (mod P) in which the instance was started
  age,       \* [Inst -> 0..P+D] units since its start (capped)
  now,       \* clock mod P
  amLeader,  \* [Inst -> BOOLEAN]            serviceDiscovery.amILeader
  leaderOf,  \* [Inst -> Inst \cup {0}]      serviceDiscovery.leaderService (0: none)
  services,  \* [Inst -> SUBSET Inst]        serviceDiscovery.services
  info,      \* [Inst -> <<n, t>>]           serviceDiscovery.info (<<0,0>>: nil)
  lease,     \* Inst \cup {0}: holder of the Kubernetes lease (the environment's choice)
  told,      \* [Inst -> Inst \cup {0}]: which lease holder the instance's election callback has been run for
  quiet,     \* units since the last change
  events, announced,
  marks, emitv, mon, hist

vars == <<st, order, ph, age, now, amLeader, leaderOf, services, info, lease, told, quiet, events, announced, marks, emitv, mon, hist>>
view == <<st, order, ph, age, now, amLeader, leaderOf, services, info, lease, told, quiet, events, announced, marks, mon>>

Up == {i \in Inst : st[i] = "up"}
JoinPos(i) == Pos(order, i)
SortJ(S) == SelectSeq(order, LAMBDA x : x \in S)
Alive(i) == st[i] = "up"

Init == /\ st = [i \in Inst |-> "off"] /\ order = <<>> /\ ph = [i \in Inst |-> 0] /\ age = [i \in Inst |-> 0] /\ now = 0
        /\ amLeader = [i \in Inst |-> FALSE] /\ leaderOf = [i \in Inst |-> 0] /\ services = [i \in Inst |-> {}]
        /\ info = [i \in Inst |-> <<0, 0>>] /\ lease = 0 /\ told = [i \in Inst |-> 0] /\ quiet = 0 /\ events = 0
        /\ announced = FALSE /\ marks = {} /\ emitv = <<>> /\ mon = MonInit /\ hist = <<>>

Changed == quiet' = 0 /\ announced' = FALSE

\* ---- SetInfo: publish only on change -------------------------------------------------------------------------
\* (inf: the info function to update; returns <<new function, events>>)
SetInfo(inf, i, n, t) == IF inf[i] = <<n, t>> THEN <<inf, <<>>>>
                         ELSE <<[inf EXCEPT ![i] = <<n, t>>], <<[ev |-> "Announce", i |-> i, n |-> n, t |-> t]>>>>

\* ---- the two loop bodies -------------------------------------------------------------------------------------
\* heart-beat tick of i, on the state record s = [leaderOf, services]; a ping / reconnect / register reaches only live instances
HbTick(s, i) ==
  LET l == s.leaderOf[i]
      \* leader down: ReassignLeader fails as well (same target) -> RemoveLeader
      lo == IF l # 0 /\ ~Alive(l) THEN [s.leaderOf EXCEPT ![i] = 0] ELSE s.leaderOf
      sv == [s.services EXCEPT ![i] = {x \in @ : Alive(x)}]
  IN  [s EXCEPT !.leaderOf = lo, !.services = sv]

\* monitor tick of i: <<info', events>>
RECURSIVE Assign(_, _, _, _, _)
Assign(inf, evs, names, k, total) ==
  IF k > Len(names) THEN <<inf, evs>>
  ELSE LET f == names[k] IN
       IF Alive(f) THEN LET r == SetInfo(inf, f, k + 1, total) IN Assign(r[1], evs \o r[2], names, k + 1, total)
       ELSE Assign(inf, evs, names, k + 1, total)          \* the Rebalance call fails: logged, nothing else
MonTick(inf, svc, i) ==
  IF ~amLeader[i] THEN <<inf, <<>>>>
  ELSE LET names == SortJ(svc[i])
           total == Len(names) + 1
           r == SetInfo(inf, i, 1, total)
       IN  Assign(r[1], r[2], names, 1, total)

\* ---- one unit of time: the due ticks in order of the instance number ------------------------------------------
HbDue(i, u, a) == Alive(i) /\ a[i] >= P /\ (u - ph[i]) % P = 0
MonDue(i, u, a) == Alive(i) /\ a[i] >= P + D /\ (u - ph[i] - D) % P = 0
RECURSIVE RunTicks(_, _, _, _, _, _)
RunTicks(s, inf, evs, todo, u, a) ==
  IF todo = {} THEN <<s, inf, evs>>
  ELSE LET i == CHOOSE x \in todo : \A y \in todo : x <= y
           s1 == IF HbDue(i, u, a) THEN HbTick(s, i) ELSE s
           r == IF MonDue(i, u, a) THEN MonTick(inf, s1.services, i) ELSE <<inf, <<>>>>
       IN  RunTicks(s1, r[1], evs \o r[2], todo \ {i}, u, a)

Tock ==
  /\ quiet < Settle
  /\ LET u == (now + 1) % P
         a == [i \in Inst |-> IF Alive(i) /\ age[i] < P + D THEN age[i] + 1 ELSE age[i]]
         r == RunTicks([leaderOf |-> leaderOf, services |-> services], info, <<>>, Up, u, a)
     IN  /\ now' = u /\ age' = a /\ leaderOf' = r[1].leaderOf /\ services' = r[1].services /\ info' = r[2] /\ emitv' = r[3]
         /\ IF r[3] # <<>> \/ r[1].leaderOf # leaderOf \/ r[1].services # services
            THEN Changed ELSE quiet' = quiet + 1 /\ UNCHANGED announced
  /\ UNCHANGED <<st, order, ph, amLeader, lease, told, events>>

\* ---- the environment ------------------------------------------------------------------------------------------
\* an instance starts (it takes the unit: its loops are phased on it)
Start(i) ==
  /\ st[i] = "off" /\ events < MaxEvents /\ events' = events + 1
  /\ st' = [st EXCEPT ![i] = "up"] /\ order' = Append(order, i)
  /\ LET u == (now + 1) % P
         a0 == [j \in Inst |-> IF Alive(j) /\ age[j] < P + D THEN age[j] + 1 ELSE age[j]]
         r == RunTicks([leaderOf |-> leaderOf, services |-> services], info, <<>>, Up, u, a0)
     IN  /\ now' = u /\ ph' = [ph EXCEPT ![i] = u] /\ age' = [a0 EXCEPT ![i] = 0]
         /\ leaderOf' = r[1].leaderOf /\ services' = r[1].services /\ info' = r[2]
         /\ emitv' = <<[ev |-> "Joined", i |-> i]>> \o r[3]
  /\ Changed
  /\ UNCHANGED <<amLeader, lease, told>>

\* a pod that died is started again under the same name (a new process: nothing of the old one's state; its cluster join time is
\* the new start) - once the others have noticed the death (the property separates the events by quiet periods)
Noticed(i) == \A j \in Up : i \notin services[j] /\ leaderOf[j] # i
Restart(i) ==
  /\ st[i] = "dead" /\ Noticed(i) /\ events < MaxEvents /\ events' = events + 1
  /\ st' = [st EXCEPT ![i] = "up"] /\ order' = Append(Without(order, i), i)
  /\ LET u == (now + 1) % P
         a0 == [j \in Inst |-> IF Alive(j) /\ age[j] < P + D THEN age[j] + 1 ELSE age[j]]
         r == RunTicks([leaderOf |-> [leaderOf EXCEPT ![i] = 0], services |-> [services EXCEPT ![i] = {}]],
                       [info EXCEPT ![i] = <<0, 0>>], <<>>, Up, u, a0)
     IN  /\ now' = u /\ ph' = [ph EXCEPT ![i] = u] /\ age' = [a0 EXCEPT ![i] = 0]
         /\ leaderOf' = r[1].leaderOf /\ services' = r[1].services /\ info' = r[2]
         /\ emitv' = <<[ev |-> "Joined", i |-> i]>> \o r[3]
  \* (the lease identity carries the cluster join time - models.Identity.String(): the restarted pod is a NEW holder identity, so the
  \* others' OnNewLeader fires again when it acquires the lease; callbacks run for the old incarnation do not count for the new one)
  /\ amLeader' = [amLeader EXCEPT ![i] = FALSE] /\ told' = [j \in Inst |-> IF j = i \/ told[j] = i THEN 0 ELSE told[j]]
  /\ Changed
  /\ UNCHANGED lease

\* an instance dies silently: from now on no call reaches it and none of its calls reaches anybody
Die(i) ==
  /\ st[i] = "up" /\ events < MaxEvents /\ events' = events + 1
  /\ st' = [st EXCEPT ![i] = "dead"] /\ lease' = IF lease = i THEN 0 ELSE lease
  /\ Changed /\ emitv' = <<[ev |-> "Gone", i |-> i]>>
  /\ UNCHANGED <<order, ph, age, now, amLeader, leaderOf, services, info, told>>

\* the lease is free: some live instance acquires it
Acquire(i) ==
  /\ lease = 0 /\ st[i] = "up" /\ lease' = i /\ Changed /\ emitv' = <<>>
  /\ UNCHANGED <<st, order, ph, age, now, amLeader, leaderOf, services, info, told, events>>

\* the holder's OnStartedLeading: BeLeader, RemoveLeader
BecomeLeader(i) ==
  /\ lease = i /\ st[i] = "up" /\ told[i] # i
  /\ told' = [told EXCEPT ![i] = i] /\ amLeader' = [amLeader EXCEPT ![i] = TRUE] /\ leaderOf' = [leaderOf EXCEPT ![i] = 0]
  /\ Changed /\ emitv' = <<[ev |-> "Leader", i |-> i]>>
  /\ UNCHANGED <<st, order, ph, age, now, services, info, lease, events>>

\* another instance's OnNewLeader -> OnBecomeFollower(holder): DontBeLeader, RemoveAll, RemoveLeader, AssignLeader, Register
BecomeFollower(j) ==
  /\ lease # 0 /\ lease # j /\ st[j] = "up" /\ told[j] # lease
  /\ told' = [told EXCEPT ![j] = lease] /\ amLeader' = [amLeader EXCEPT ![j] = FALSE]
  /\ leaderOf' = [leaderOf EXCEPT ![j] = lease]
  /\ services' = [services EXCEPT ![j] = {}, ![lease] = @ \cup {j}]
  /\ Changed /\ emitv' = <<>>
  /\ UNCHANGED <<st, order, ph, age, now, info, lease, events>>

Informed == lease # 0 /\ \A i \in Up : told[i] = lease
Stable ==
  /\ quiet >= Settle /\ Up # {} /\ Informed /\ ~announced /\ announced' = TRUE
  /\ emitv' = <<[ev |-> "Stable"]>>
  /\ UNCHANGED <<st, order, ph, age, now, amLeader, leaderOf, services, info, lease, told, quiet, events>>
Step(l) ==
  CASE l.a = "Tock"           -> Tock
    [] l.a = "Start"          -> Start(l.i)
    [] l.a = "Die"            -> Die(l.i)
    [] l.a = "Restart"        -> Restart(l.i)
    [] l.a = "Acquire"        -> Acquire(l.i)
    [] l.a = "BecomeLeader"   -> BecomeLeader(l.i)
    [] l.a = "BecomeFollower" -> BecomeFollower(l.i)
    [] l.a = "Stable"         -> Stable
Labels == [a : {"Start", "Die", "Restart", "Acquire", "BecomeLeader", "BecomeFollower"}, i : Inst] \cup [a : {"Tock", "Stable"}]

Post == [up |-> TRUE, info |-> [i \in Inst |-> info[i]], leaderOf |-> [i \in Inst |-> leaderOf[i]],
         services |-> [i \in Inst |-> SortJ(services[i])], amLeader |-> [i \in Inst |-> amLeader[i]]]

NewMarks(l) ==
  LET i == l.i IN
  (IF l.a = "Die" /\ lease = i THEN {"leaderDied"} ELSE {})
  \cup (IF l.a = "Die" /\ lease # 0 /\ lease # i /\ i \in services[lease] THEN {"followerDied"} ELSE {})
  \cup (IF l.a = "Start" /\ lease # 0 /\ Cardinality(Up) >= 2 THEN {"lateJoiner"} ELSE {})
  \cup (IF l.a = "Restart" /\ lease # 0 /\ lease # i THEN {"followerRestarted"} ELSE {})
  \cup (IF l.a = "Stable" /\ Cardinality(Up) >= 2 /\ "followerRestarted" \in marks THEN {"stableAfterFollowerRestarted"} ELSE {})
  \cup (IF l.a = "Stable" /\ Cardinality(Up) >= 3 THEN {"stableThree"} ELSE {})
  \cup (IF l.a = "Stable" /\ Cardinality(Up) >= 3 /\ lease # order[1] THEN {"stableThreeLeaderNotFirst"} ELSE {})
  \cup (IF l.a = "Stable" /\ Cardinality(Up) >= 2 /\ "leaderDied" \in marks THEN {"stableAfterLeaderDied"} ELSE {})
  \cup (IF l.a = "Stable" /\ Cardinality(Up) >= 2 /\ "followerDied" \in marks THEN {"stableAfterFollowerDied"} ELSE {})
  \cup (IF l.a = "Stable" /\ Cardinality(Up) >= 3 /\ "lateJoiner" \in marks THEN {"stableAfterLateJoiner"} ELSE {})

Next == \E l \in Labels :
          /\ Step(l)
          /\ marks' = IF Marking THEN marks \cup NewMarks(l @@ [i |-> 1]) ELSE marks
          /\ mon' = MonFold(mon, emitv')
          /\ hist' = IF Record THEN Append(hist, [l |-> l, evs |-> emitv', post |-> Post']) ELSE hist
Spec == Init /\ [][Next]_vars

C10 == NoC10(mon)
Ranking == IF lease # 0 /\ Alive(lease) THEN <<lease>> \o SortJ(Up \ {lease}) ELSE SortJ(Up)
Agree == (quiet >= Settle /\ Informed) => \A i \in Up : info[i] = <<Pos(Ranking, i), Cardinality(Up)>>
=============================================================================
