------------------------------- MODULE Chunk -------------------------------
(***************************************************************************)
(* C09 - vBucket partition across group members.                           *)
(*                                                                         *)
(* Sizes(n,t) is a transcription of helpers.ChunkSlice (helpers/utils.go): *)
(*   maxChunkSize  = ((n-1) / t) + 1                                       *)
(*   numFullChunks = t - (maxChunkSize*t - n)                              *)
(*   chunk i (0-based) has maxChunkSize elements if i < numFullChunks,     *)
(*   else maxChunkSize-1; chunks are cut consecutively from 0..n-1.        *)
(* VBucketDiscovery.Get returns chunk (memberNumber-1).                    *)
(* TLC enumerates every (n,t), 1 <= t <= n <= MaxN, as initial states and  *)
(* checks Partition; every state prints the run-length form of the result, *)
(* which the Go driver compares with the real functions (conformance) and  *)
(* MonChunk.tla re-checks Partition on what the real code returned.        *)
(***************************************************************************)
EXTENDS Integers, Sequences, FiniteSets, TLC
CONSTANTS MaxN, NSet       \* pairs (n,t) with n \in NSet, 1 <= t <= n
VARIABLES n, t

MaxChunk(nn, tt) == ((nn - 1) \div tt) + 1
NumFull(nn, tt) == tt - (MaxChunk(nn, tt) * tt - nn)
Size(nn, tt, i) == IF i - 1 < NumFull(nn, tt) THEN MaxChunk(nn, tt) ELSE MaxChunk(nn, tt) - 1   \* i = 1..tt
\* first element (0-based vBucket id) of member i's chunk
Start(nn, tt, i) == IF i - 1 <= NumFull(nn, tt) THEN (i - 1) * MaxChunk(nn, tt)
                    ELSE NumFull(nn, tt) * MaxChunk(nn, tt) + (i - 1 - NumFull(nn, tt)) * (MaxChunk(nn, tt) - 1)

\* the property, stated on (start, size) of every member
PartitionOf(nn, tt, st, sz) ==
  /\ \A i \in 1..tt : sz[i] >= 1                                     \* non-empty
  /\ st[1] = 0                                                       \* starts at vBucket 0
  /\ \A i \in 1..(tt - 1) : st[i + 1] = st[i] + sz[i]                \* contiguous, ascending, disjoint, no gap
  /\ st[tt] + sz[tt] = nn                                            \* covers 0..n-1 exactly
  /\ \A i \in 1..tt : sz[1] - sz[i] \in {0, 1}                       \* sizes differ by at most one (and never grow)
Partition == PartitionOf(n, t, [i \in 1..t |-> Start(n, t, i)], [i \in 1..t |-> Size(n, t, i)])
\* the usual closed form: the first (n mod t) members get one more
ClosedForm == \A i \in 1..t : Size(n, t, i) = (n \div t) + (IF i <= n % t THEN 1 ELSE 0)

Init == n \in NSet /\ t \in 1..n
Next == UNCHANGED <<n, t>>
Spec == Init /\ [][Next]_<<n, t>>
\* table for the conformance replay: n t maxChunkSize numFullChunks
Emit == PrintT(<<"CHUNK", n, t, MaxChunk(n, t), NumFull(n, t)>>)
=============================================================================
