SPECIFICATION SimSpec
CONSTANTS Inst = {1, 2, 3} NVB = 8 MaxPuts = 14 Record = TRUE Depth = 24
INVARIANTS DumpSched
CHECK_DEADLOCK FALSE
