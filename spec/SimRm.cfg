SPECIFICATION SimSpec
CONSTANTS
  NVB = 2
  InitLog <- EmptyLog
  MaxSeq = 3
  Keys = {"user"}
  Kinds = {"mut", "sys", "adv"}
  OldEvents = FALSE
  BadEvents = FALSE
  FoUuid <- Fo10
  Savers = {"p"}
  MaxSaves = 1
  MaxCrash = 0
  MaxAcks = 2
  MaxGen = 2
  MaxNotify = 0
  MaxEnds = 0
  MaxFail = 0
  AutoReset = "earliest"
  Finite = FALSE
  AutoCkpt = FALSE
  Infos <- NoInfos
  Info0 <- Info11
  EndCauses = {}
  Hold = FALSE
  AllowClose = TRUE
  Rollbacks = FALSE
  FailSaves = FALSE
  Focus = TRUE
  Record = TRUE
  ReadOnly = FALSE
  AckSplit = FALSE
  HoldCb = FALSE
  RM = TRUE
  Slots = 3
  RmUuids = {1, 2}
  RmMonotone = FALSE
  Scrapes = FALSE
  HookScrapes = FALSE
  Marking = FALSE
  WindAt = 36
  Gaps = {}
  Bugs = {}
  D = 50
INVARIANTS DumpSched
CHECK_DEADLOCK FALSE
