------------------------------ MODULE EnvSubst ------------------------------
(***************************************************************************************************************)
(* C17, placeholders - dcp.go newDcpConfig l.364-391 transcribed: every ${VAR} in the config file whose VAR is a   *)
(* set environment variable is replaced, at every occurrence, by its value; placeholders of unset variables stay.  *)
(* A string option is a sequence of tokens: literal chunks and placeholders. TLC enumerates all layouts up to      *)
(* MaxLen tokens x which variables are set, checks the transcription against the property and prints rows.         *)
(***************************************************************************************************************)
EXTENDS Integers, Sequences, FiniteSets, TLC, Json
CONSTANTS MaxLen
Vars == {"VERIF_A", "VERIF_B"}
\* (literal text may contain dollar signs - directly in front of a placeholder, or a shell-style $NAME, which is not a placeholder)
Lits == {"x", "yy-", "$", "$VERIF_A "}
Tokens == [t : {"lit"}, v : Lits] \cup [t : {"ph"}, v : Vars]
ValueOf(v) == IF v = "VERIF_A" THEN "alpha" ELSE "b3"

VARIABLES toks, set
vars == <<toks, set>>
Layouts == UNION {[1..n -> Tokens] : n \in 1..MaxLen}
Init == toks \in Layouts /\ set \in SUBSET Vars
Next == UNCHANGED vars
Spec == Init /\ [][Next]_vars

Text(tk) == IF tk.t = "lit" THEN tk.v ELSE "${" \o tk.v \o "}"
RECURSIVE Cat(_)
Cat(s) == IF s = <<>> THEN "" ELSE Head(s) \o Cat(Tail(s))
Raw == Cat([k \in 1..Len(toks) |-> Text(toks[k])])
\* the code: for each match of the pattern in the ORIGINAL text, in order: if the variable is set, ReplaceAll on the current text
ReplaceAllTok(s, v) == [k \in 1..Len(s) |-> IF s[k].t = "ph" /\ s[k].v = v THEN [t |-> "lit", v |-> ValueOf(v)] ELSE s[k]]
RECURSIVE Run(_, _)
Run(s, matches) == IF matches = <<>> THEN s
                   ELSE Run(IF Head(matches) \in set THEN ReplaceAllTok(s, Head(matches)) ELSE s, Tail(matches))
Matches == LET phs == SelectSeq(toks, LAMBDA tk : tk.t = "ph") IN [k \in 1..Len(phs) |-> phs[k].v]
Result == Cat([k \in 1..Len(toks) |-> Text(Run(toks, Matches)[k])])
\* the property, token by token
Want == Cat([k \in 1..Len(toks) |-> IF toks[k].t = "ph" /\ toks[k].v \in set THEN ValueOf(toks[k].v) ELSE Text(toks[k])])
Prop == Result = Want
Emit == PrintT(<<"SUBST", ToJson([raw |-> Raw, set |-> set, want |-> Want])>>)
=============================================================================
