------------------------------- MODULE Config -------------------------------
(***************************************************************************************************************)
(* C17 - config/dcp.go ApplyDefaults transcribed, function by function, as a sequential process over an options  *)
(* record: every option is "unset" (Go zero value / nil / empty string) or carries an explicit value.            *)
(*                                                                                                               *)
(*   cfg   the configuration as the user wrote it          env   GO_DCP__DCP_GROUP_MEMBERSHIP_{MEMBERNUMBER,     *)
(*   cur   the configuration being defaulted                      TOTALMEMBERS} ("unset" or a number)            *)
(*   pc    which applyDefaultXxx runs next (1..Len(Steps)), then a second ApplyDefaults (idempotence)             *)
(*                                                                                                               *)
(* TLC starts from every configuration of the chosen family (nothing set, everything set, every single option,    *)
(* every pair of options, x two explicit values per option - one of them the default itself - x the env cases),  *)
(* checks the properties at the end of the first and of the second application, and prints one table row per     *)
(* initial state; the Go driver replays the rows into the real config.Dcp and MonConfig.tla re-checks the         *)
(* properties on what the real ApplyDefaults produced.                                                           *)
(* Durations are in milliseconds, sizes in bytes.                                                                *)
(***************************************************************************************************************)
EXTENDS Integers, Sequences, FiniteSets, FiniteSetsExt, TLC, Json
CONSTANTS MaxSet      \* configurations with at most this many options set explicitly (plus the all-set one)

\* "unset" is the Go zero value: 0 / nil for numbers, sizes and durations, "" / nil for strings and lists

\* option, documented default, a second explicit value
Table == <<
  <<"rollbackMitigation.interval", "n", 1000, 7>>,
  <<"rollbackMitigation.configWatchInterval", "n", 10000, 7>>,
  <<"checkpoint.interval", "n", 60000, 7>>,
  <<"checkpoint.timeout", "n", 60000, 7>>,
  <<"checkpoint.type", "s", "auto", "manual">>,
  <<"checkpoint.autoReset", "s", "earliest", "latest">>,
  <<"healthCheck.interval", "n", 60000, 7>>,
  <<"healthCheck.timeout", "n", 60000, 7>>,
  <<"dcp.group.membership.rebalanceDelay", "n", 30000, 7>>,
  <<"dcp.group.membership.totalMembers", "n", 1, 5>>,
  <<"dcp.group.membership.memberNumber", "n", 1, 3>>,
  <<"dcp.group.membership.type", "s", "couchbase", "static">>,
  <<"dcp.connectionTimeout", "n", 60000, 7>>,
  <<"connectionTimeout", "n", 60000, 7>>,
  <<"collectionNames", "s", "_default", "c1,c2">>,
  <<"scopeName", "s", "_default", "s1">>,
  <<"connectionBufferSize", "n", 20971520, 4096>>,
  <<"maxQueueSize", "n", 2048, 9>>,
  <<"metric.path", "s", "/metrics", "/m">>,
  <<"api.port", "n", 8080, 9090>>,
  <<"leaderElection.type", "s", "kubernetes", "other">>,
  <<"leaderElection.rpc.port", "n", 8081, 9091>>,
  <<"dcp.bufferSize", "n", 16777216, 4096>>,
  <<"dcp.connectionBufferSize", "n", 20971520, 4096>>,
  <<"dcp.maxQueueSize", "n", 2048, 9>>,
  <<"metadata.type", "s", "couchbase", "file">>,
  <<"logging.level", "s", "info", "debug">> >>

\* options ApplyDefaults never touches (kept as they are: explicitly set ones must survive)
Passive == <<"bucketName", "username", "password", "rootCAPath", "dcp.group.name", "dcp.mode">>

Opts == {Table[k][1] : k \in 1..Len(Table)} \cup {Passive[k] : k \in 1..Len(Passive)}
Row(o) == CHOOSE k \in 1..Len(Table) : Table[k][1] = o
HasDefault(o) == \E k \in 1..Len(Table) : Table[k][1] = o
Numeric(o) == HasDefault(o) /\ Table[Row(o)][2] = "n"
Unset(o) == IF Numeric(o) THEN 0 ELSE ""
IsUnset(o, v) == IF Numeric(o) THEN v = 0 ELSE v = ""
Default(o) == Table[Row(o)][3]
Other(o) == IF HasDefault(o) THEN Table[Row(o)][4] ELSE "x"
\* a configuration is a choice per option: 0 unset, 1 explicitly the default value, 2 explicitly another value
Val(o, ch) == IF ch = 0 THEN Unset(o) ELSE IF ch = 1 /\ HasDefault(o) THEN Default(o) ELSE Other(o)

VARIABLES chc, env, cur, first, pc
vars == <<chc, env, cur, first, pc>>

\* ---- the code: ApplyDefaults l.411-427 and its helpers, in order ---------------------------------------------
DfltAll(c, os) == [o \in DOMAIN c |-> IF o \in os /\ IsUnset(o, c[o]) THEN Default(o) ELSE c[o]]
EnvOver(c) ==       \* applyDefaultGroupMembership l.472-492: the environment wins over file and default
  [c EXCEPT !["dcp.group.membership.totalMembers"] = IF env.tm # 0 THEN env.tm ELSE @,
            !["dcp.group.membership.memberNumber"] = IF env.mn # 0 THEN env.mn ELSE @]
Steps == <<
  {"rollbackMitigation.interval", "rollbackMitigation.configWatchInterval"},
  {"checkpoint.interval", "checkpoint.timeout", "checkpoint.type", "checkpoint.autoReset"},
  {"healthCheck.interval", "healthCheck.timeout"},
  {"dcp.group.membership.rebalanceDelay", "dcp.group.membership.totalMembers", "dcp.group.membership.memberNumber", "dcp.group.membership.type"},
  {"dcp.connectionTimeout", "connectionTimeout"},
  {"collectionNames"}, {"scopeName"}, {"connectionBufferSize"}, {"maxQueueSize"}, {"metric.path"}, {"api.port"},
  {"leaderElection.type", "leaderElection.rpc.port"},
  {"dcp.bufferSize", "dcp.connectionBufferSize", "dcp.maxQueueSize"},
  {"metadata.type"}, {"logging.level"} >>
ApplyStep(c, k) == LET d == DfltAll(c, Steps[k]) IN IF k = 4 THEN EnvOver(d) ELSE d

\* ---- initial configurations ---------------------------------------------------------------------------------
Choice(ch) == [o \in Opts |-> Val(o, ch[o])]
\* built without enumerating 3^|Opts| functions: pick the set of explicitly set options first
SmallChoices == UNION {{[o \in Opts |-> IF o \in S THEN f[o] ELSE 0] : f \in [S -> 1..2]} : S \in UNION {kSubset(k, Opts) : k \in 0..MaxSet}}
AllChoices == SmallChoices \cup {[o \in Opts |-> 1], [o \in Opts |-> 2]}
Envs == [mn : {0, 2}, tm : {0, 4}]
cfg == Choice(chc)

Init == /\ chc \in AllChoices /\ env \in Envs /\ cur = Choice(chc) /\ first = Choice(chc) /\ pc = 1
Next == \/ /\ pc <= Len(Steps) /\ cur' = ApplyStep(cur, pc) /\ pc' = pc + 1
           /\ first' = (IF pc = Len(Steps) THEN cur' ELSE first) /\ UNCHANGED <<chc, env>>
        \/ /\ pc > Len(Steps) /\ pc <= 2 * Len(Steps) /\ cur' = ApplyStep(cur, pc - Len(Steps)) /\ pc' = pc + 1
           /\ UNCHANGED <<chc, env, first>>
Spec == Init /\ [][Next]_vars

\* ---- the property (also used by MonConfig on what the real code returns) ------------------------------------
\* c: the choices the user made, e: environment, out: configuration after ApplyDefaults
EnvOpt(o, e) == IF o = "dcp.group.membership.memberNumber" THEN e.mn ELSE IF o = "dcp.group.membership.totalMembers" THEN e.tm ELSE 0
Filled(c, e, out) == \A o \in Opts : HasDefault(o) => ~IsUnset(o, out[o])
Kept(c, e, out) == \A o \in Opts : (c[o] # 0 /\ EnvOpt(o, e) = 0) => out[o] = Val(o, c[o])
Defaulted(c, e, out) == \A o \in Opts : (c[o] = 0 /\ EnvOpt(o, e) = 0) => out[o] = IF HasDefault(o) THEN Default(o) ELSE Unset(o)
EnvWins(c, e, out) == \A o \in Opts : EnvOpt(o, e) # 0 => out[o] = EnvOpt(o, e)
Good(c, e, out) == Filled(c, e, out) /\ Kept(c, e, out) /\ Defaulted(c, e, out) /\ EnvWins(c, e, out)

AfterFirst == pc = Len(Steps) + 1 => Good(chc, env, cur)
Idempotent == pc = 2 * Len(Steps) + 1 => cur = first /\ Good(chc, env, cur)
\* one table row per initial state
Emit == pc = 1 => PrintT(<<"CFG", ToJson([ch |-> chc, cfg |-> cfg, env |-> env])>>)
=============================================================================
