---------------------------- MODULE ReplayMemberSD ----------------------------
(* label sequences (labels.ndjson) run through MemberSD.tla: checks they are behaviours, adds predictions *)
EXTENDS MemberSD, Json
VARIABLES j, k
Scheds == ndJsonDeserialize("labels.ndjson")
RInit == Init /\ j \in 1..Len(Scheds) /\ k = 1
RNext == /\ k <= Len(Scheds[j]) /\ Step(Scheds[j][k]) /\ mon' = MonFold(mon, emitv') /\ marks' = marks
         /\ hist' = Append(hist, [l |-> Scheds[j][k], evs |-> emitv', post |-> Post'])
         /\ k' = k + 1 /\ j' = j
RSpec == RInit /\ [][RNext]_<<vars, j, k>>
Stuck == k <= Len(Scheds[j]) /\ ~ENABLED RNext
DumpSched == (k > Len(Scheds[j]) \/ Stuck) =>
               PrintT(<<"SCHED", ToJson([cfg |-> [NVB |-> NVB, N |-> Cardinality(Inst), P |-> P, D |-> D], steps |-> hist, j |-> j, complete |-> k > Len(Scheds[j])])>>)
=============================================================================
