SPECIFICATION RSpec
CONSTANTS Inst = {1, 2, 3, 4} NVB = 8 P = 4 D = 2 MaxEvents = 20 Settle = 9 Marking = FALSE Record = TRUE
INVARIANTS DumpSched C10
CHECK_DEADLOCK FALSE
