SPECIFICATION Spec
CONSTANTS IntParts = {0, 1, 7, 20, 1023, 2047}
          Fracs <- FracsQ
          Units = {"kb", "KB", "Kb", "mb", "MB", "mB", "gb", "GB", "gB"}
INVARIANTS Whole Bracket CaseBlind Emit
CHECK_DEADLOCK FALSE
