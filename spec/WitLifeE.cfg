SPECIFICATION Spec
CONSTANTS
  NVB = 2
  InitLog <- EmptyLog
  MaxSeq = 1
  Keys = {"user"}
  Kinds = {"mut"}
  OldEvents = FALSE
  BadEvents = FALSE
  FoUuid <- Fo10
  Savers = {"p"}
  MaxSaves = 0
  MaxCrash = 0
  MaxAcks = 1
  MaxGen = 4
  MaxNotify = 0
  MaxEnds = 2
  MaxFail = 0
  AutoReset = "earliest"
  Finite = FALSE
  AutoCkpt = FALSE
  Infos <- Infos2
  Info0 <- Info11
  EndCauses = {"socket", "statechanged", "ok"}
  Hold = FALSE
  AllowClose = FALSE
  Rollbacks = FALSE
  FailSaves = FALSE
  Focus = FALSE
  Record = FALSE
  ReadOnly = FALSE
  AckSplit = FALSE
  HoldCb = FALSE
  RM = FALSE
  Slots = 1
  RmUuids = {1, 2}
  RmMonotone = FALSE
  Scrapes = FALSE
  HookScrapes = FALSE
  Marking = TRUE
  WindAt = 0
  Gaps = {}
  Bugs = {}
  Target = "@TARGET@"
  DeathOK = @DEATHOK@
VIEW view
INVARIANTS WitnessInv
CHECK_DEADLOCK FALSE
