SPECIFICATION WSpec
CONSTANTS Inst = {1, 2, 3, 4} NVB = 8 K = 1 MaxEvents = 5 Quiet = TRUE Marking = TRUE Record = FALSE Target = "@TARGET@"
VIEW view
INVARIANTS WitnessInv
CHECK_DEADLOCK FALSE
