------------------------------ MODULE MCHealth ------------------------------
EXTENDS HealthCheck, Json
CONSTANT D
Nop == /\ UNCHANGED <<started, running, cancelled, attempt, phase, rounds, nstart, nstop, stopping, stopdone, dead, emitv, mon>>
       /\ hist' = Append(hist, [l |-> [a |-> "Nop"]])
SimSpec == Init /\ [][Next \/ Nop]_vars
DumpSched == (Len(hist) = D) => PrintT(<<"SCHED", ToJson([cfg |-> [NVB |-> 0], steps |-> hist])>>)
=============================================================================
