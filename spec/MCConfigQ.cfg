SPECIFICATION Spec
CONSTANTS MaxSet = 1
INVARIANTS AfterFirst Idempotent Emit
CHECK_DEADLOCK FALSE
