SPECIFICATION SimSpec
CONSTANTS MaxRounds = 2 MaxStarts = 2 MaxStops = 2 Record = TRUE D = 16
INVARIANTS DumpSched
CHECK_DEADLOCK FALSE
