SPECIFICATION Spec
CONSTANTS IntParts = {0, 1, 2, 7, 16, 100, 512, 1023, 1024, 2047, 65536, 2000000}
          Fracs <- FracsT
          Units = {"kb", "KB", "Kb", "kB", "mb", "MB", "Mb", "mB", "gb", "GB", "Gb", "gB"}
INVARIANTS Whole Bracket CaseBlind Emit
CHECK_DEADLOCK FALSE
