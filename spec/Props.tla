------------------------------- MODULE Props -------------------------------
(***************************************************************************)
(* Property monitors of the stream family (C01, C03, C04, C05, C06, C08,   *)
(* C11, C12, C13, C14, C15, C16), written ONCE over observables only:      *)
(* things visible at the library's API boundary (what the server sent,     *)
(* what the consumer was handed and acknowledged, what was passed to       *)
(* Metadata.Save, what the backend wrote, stream requests, callbacks ...). *)
(*                                                                         *)
(* The monitor is a deterministic state machine   obs' = Apply(obs, e)     *)
(* over observable events e.  It is instantiated twice:                    *)
(*   - Core.tla feeds it the events its actions emit, so TLC proves        *)
(*     Core => properties for every interleaving within the bounds;        *)
(*   - MonTrace.tla feeds it the events recorded from the REAL code.       *)
(* A violation is remembered in obs.viol as <<property id, reason>>.       *)
(***************************************************************************)
EXTENDS Integers, Sequences, FiniteSets, TLC

CONSTANT NVB            \* vBuckets are 1..NVB   (Go vbID = spec vb - 1)

VB == 1..NVB
MAXSEQ == 0 - 1         \* stands for 0xffffffffffffffff ("no end")

NoOff == [uuid |-> 0 - 1, seq |-> 0 - 1, ss |-> 0 - 1, se |-> 0 - 1]
ZeroOff == [uuid |-> 0, seq |-> 0, ss |-> 0, se |-> 0]
Off(u, q, s, e) == [uuid |-> u, seq |-> q, ss |-> s, se |-> e]

MaxOf(S) == CHOOSE x \in S : \A y \in S : y <= x
MaxOr(S, d) == IF S = {} THEN d ELSE MaxOf(S)
SeqToSet(s) == {s[i] : i \in DOMAIN s}
\* sets travel through events as ascending sequences (that is how they look in JSON)
RECURSIVE SortedSeq(_)
SortedSeq(S) == IF S = {} THEN <<>> ELSE LET m == CHOOSE x \in S : \A y \in S : x <= y
                                         IN <<m>> \o SortedSeq(S \ {m})

\* helpers.ChunkSlice + VBucketDiscovery.Get: the contiguous vBucket set of member m of t (C09 proves it a partition)
ChunkLoP(t, m) == LET q == NVB \div t  r == NVB % t IN (m - 1) * q + (IF m - 1 < r THEN m - 1 ELSE r) + 1
ChunkHiP(t, m) == LET q == NVB \div t  r == NVB % t IN m * q + (IF m < r THEN m ELSE r)
ChunkSet(i) == {v \in VB : ChunkLoP(i[2], i[1]) <= v /\ v <= ChunkHiP(i[2], i[1])}

DocKinds == {"mut", "del", "exp"}
IsDoc(e) == e.k \in DocKinds
Reserved(e) == e.key \in {"conn", "txn"}
\* filters of the observer that apply to an event irrespective of the library's state
\* what the library settles on its own
Absorbable(e) == e.k \in {"sys", "adv"} \/ (IsDoc(e) /\ Reserved(e) /\ ~e.old)
\* what C05 obliges a save to persist without an acknowledgement
NonDocAdvance(e) == e.k \in {"sys", "adv"}

TransientCauses == {"socket", "backfill", "statechanged", "tooslow", "disconnected"}

-----------------------------------------------------------------------------
ObsInit == [
  up       |-> FALSE,                     \* a library process exists
  boots    |-> 0,
  \* ---- settlement --------------------------------------------------------
  ever     |-> [v \in VB |-> {}],         \* C01: seqnos ever settled (all sessions)
  sess     |-> [v \in VB |-> {}],         \* C04: seqnos settled in the current stream session (with resume)
  adv      |-> [v \in VB |-> 0 - 1],      \* C05: furthest position settled by an ack or a non-document event (-1: none)
  resume   |-> [v \in VB |-> NoOff],      \* offset of the stream request of the current session
  \* ---- per stream request -------------------------------------------------
  streaming|-> [v \in VB |-> FALSE],      \* a stream request is outstanding / the stream is running
  closing  |-> FALSE,                     \* the library announced BeforeStreamStop and not yet AfterStreamStart
  uuid     |-> [v \in VB |-> 0 - 1],      \* history branch of the current stream (first failover entry of the response)
  snap     |-> [v \in VB |-> <<0 - 1, 0 - 1>>],  \* snapshot range the server announced last
  catchF   |-> [v \in VB |-> 0 - 1],      \* position already reached when the server asked for a rollback (-1: none)
  origin   |-> [v \in VB |-> {}],         \* C06: the offsets that events of this vb legitimately carry (all sessions)
  expect   |-> [v \in VB |-> <<>>],       \* C03: document events that must be delivered, in order (this request)
  got      |-> [v \in VB |-> <<>>],       \* C03: what was delivered (this request)
  inpush   |-> [v \in VB |-> FALSE],      \* an event was handed to the observer and the call has not returned
  mustdie  |-> FALSE,                     \* C06: an event outside its snapshot was presented; the next thing must be Died
  pend     |-> {},                        \* C15: start-up conditions that forbid a session and have not been overcome by a later
                                          \*      successful attempt: "load", "seq", "folog", "ahead", "partial"
  pendopen |-> {},                        \* C15: assigned vBuckets whose stream request was refused (and not granted since)
  \* ---- store ---------------------------------------------------------------
  store    |-> [v \in VB |-> NoOff],
  news     |-> FALSE,                     \* an ack / non-document advance happened that no save has picked up yet
  conf     |-> [v \in VB |-> 0 - 1],      \* seqno the library was TOLD is durable (successful saves, loads)
  range    |-> {},                        \* vBuckets assigned in the current session
  owned    |-> {},                        \* vBuckets settled while assigned and not yet covered by a successful save
  saves    |-> {},                        \* saves in flight: records [t, need, idle, valid, wrote, failed]
  \* ---- lifecycle ------------------------------------------------------------
  phase    |-> "init",                    \* position in the bracket grammar of lifecycle callbacks (C11)
  auto     |-> FALSE,                     \* automatic checkpointing (final save in Close)
  readonly |-> FALSE,                     \* metadata.readOnly: nothing may be written, so nothing becomes durable (C02)
  finite   |-> FALSE,                     \* dcp.mode finite
  latest   |-> FALSE,                     \* checkpoint.autoReset = latest
  minfo    |-> <<1, 1>>,                  \* membership most recently announced
  nbursts  |-> 0, ncycles |-> 0, burstOpen |-> FALSE,
  ended    |-> {},                        \* assigned vBuckets whose stream ended for good (C12)
  reopen   |-> {},                        \* vBuckets whose transient end must be followed by a re-open (C12)
  high     |-> [v \in VB |-> 0 - 1],      \* high seqnos the server reported at open (C15)
  closeCalled |-> FALSE, closeReturned |-> FALSE, stoppedSeen |-> FALSE,
  finalFailed |-> FALSE,                  \* the final save of Close() was attempted and the store refused it (C13 cannot ask for more)
  needClose |-> [v \in VB |-> 0 - 1],    \* positions settled before Close() was called (C13)
  closereq |-> {},                        \* vBuckets for which CloseStream was requested since they were opened
  \* ---- metrics (C16) --------------------------------------------------------------
  shigh    |-> [v \in VB |-> 0],          \* high seqnos handed to the scrape in progress
  kcnt     |-> [v \in VB |-> <<0, 0, 0>>],\* document events of each kind accepted in the session (push returned)
  lastdoc  |-> [v \in VB |-> ""],         \* kind of the accepted document event whose push has not returned yet
  nreb     |-> 0,                         \* completed rebalances
  sminfo   |-> <<1, 1>>,                  \* membership the current session was opened with
  \* ---- rollback mitigation (C07) -----------------------------------------------------
  gate     |-> FALSE,                     \* rollback mitigation is switched on
  tab      |-> [v \in VB |-> <<>>],       \* per copy of v listed in the cluster map: the last persistence report
  best     |-> [v \in VB |-> 0],          \* highest seqno that all listed copies have ever reported together under one vbUUID
  gwait    |-> [v \in VB |-> 0 - 1],      \* seqno of the event handed to the observer while the gate was on (-1: none)
  padv     |-> [v \in VB |-> 0 - 1],      \* C05 obligation of that event, due when it takes effect
  fresh    |-> 0,                         \* C06: the vBucket whose event was handed to the observer by the very last thing that happened (0: none)
  incb     |-> "",                        \* C11: the lifecycle callback the user's handler is still inside ("": none known)
  hadv     |-> [v \in VB |-> 0 - 1],      \* C05 obligation of an acknowledgement whose Ack() call has not returned yet (AckHeld .. AckDone)
  psess    |-> [v \in VB |-> 0 - 1],      \* position that event settles when it takes effect (-1: none)
  pdead    |-> [v \in VB |-> FALSE],      \* ... on a stream the library had already closed
  lthr     |-> [v \in VB |-> 0],          \* threshold the observer exposed last
  viol     |-> {}
]

Viol(o, id, msg) == [o EXCEPT !.viol = @ \cup {<<id, msg>>}]
Check(o, cond, id, msg) == IF cond THEN o ELSE Viol(o, id, msg)

ValidOff(f) == f.ss <= f.seq /\ f.seq <= f.se

StoreSeq(o, v) == IF o.store[v] = NoOff THEN 0 - 1 ELSE o.store[v].seq

\* work a save is obliged to do (C05) / allowed to do (C05 idle clause, C14)
Pending(o) == {v \in VB : o.adv[v] > StoreSeq(o, v)}
Unconfirmed(o) == {v \in VB : o.adv[v] > o.conf[v]}

-----------------------------------------------------------------------------
(* one clause per observable event                                          *)

ApBoot(o, e) ==
  [o EXCEPT !.phase = "init", !.auto = e.auto, !.readonly = e.readonly, !.finite = e.finite, !.minfo = <<e.member, e.total>>, !.nbursts = 0, !.ncycles = 0,
            !.burstOpen = FALSE, !.ended = {}, !.reopen = {}, !.closeCalled = FALSE, !.closeReturned = FALSE,
            !.stoppedSeen = FALSE, !.finalFailed = FALSE, !.closereq = {}, !.high = [v \in VB |-> 0 - 1], !.nreb = 0,
            !.kcnt = [v \in VB |-> <<0, 0, 0>>], !.lastdoc = [v \in VB |-> ""],
            !.up = TRUE, !.boots = @ + 1, !.saves = {}, !.closing = FALSE, !.mustdie = FALSE, !.pend = {}, !.pendopen = {},
            !.streaming = [v \in VB |-> FALSE], !.inpush = [v \in VB |-> FALSE], !.range = {},
            !.adv = [v \in VB |-> 0 - 1], !.conf = [v \in VB |-> StoreSeq(o, v)], !.news = FALSE, !.owned = {},
            !.gate = FALSE, !.tab = [v \in VB |-> <<>>], !.best = [v \in VB |-> 0], !.gwait = [v \in VB |-> 0 - 1],
            !.padv = [v \in VB |-> 0 - 1], !.psess = [v \in VB |-> 0 - 1], !.pdead = [v \in VB |-> FALSE], !.lthr = [v \in VB |-> 0],
            !.hadv = [v \in VB |-> 0 - 1], !.incb = "", !.fresh = 0]

ApDied(o, e) == [o EXCEPT !.up = FALSE, !.mustdie = FALSE, !.pend = {}, !.pendopen = {}]

\* metadata.Load(vbs): a stream session begins for exactly these vBuckets
ApLoad(o, e) ==
  Check(
  \* (acknowledgements that arrived while no session was open are given up: the new session loads the store)
  [o EXCEPT !.ended = {}, !.reopen = {}, !.closereq = {}, !.sminfo = o.minfo,
            !.kcnt = [v \in VB |-> <<0, 0, 0>>], !.lastdoc = [v \in VB |-> ""],
            !.saves = {[x EXCEPT !.need = [v \in VB |-> 0 - 1]] : x \in @},
            !.range = SeqToSet(e.vbs), !.adv = [v \in VB |-> 0 - 1], !.closing = FALSE,
            !.sess = [v \in VB |-> {}], !.pend = {}, !.pendopen = {}],        \* (a new attempt to start a session)
  SeqToSet(e.vbs) = ChunkSet(o.minfo), "C11", "session opened on a range that is not that of the most recent membership")

\* GetVBucketSeqNos answered: e.ok, e.high
ApSeqNos(o, e) ==
  IF e.scrape THEN [o EXCEPT !.shigh = e.high]
  ELSE IF ~e.ok THEN [o EXCEPT !.pend = @ \cup {"seq"}]
  ELSE LET latest == e.latest /\ \A v \in o.range : o.store[v] = NoOff
           ahead == ~latest /\ \E v \in o.range : o.store[v] # NoOff /\ o.store[v].seq > e.high[v]
           \* the backend handed back documents for only part of the assignment
           partial == e.partial /\ (\E v \in o.range : o.store[v] # NoOff) /\ (\E v \in o.range : o.store[v] = NoOff)
       IN [o EXCEPT !.high = e.high, !.latest = e.latest,
                    !.pend = (@ \ {"seq", "ahead", "partial"}) \cup (IF ahead THEN {"ahead"} ELSE {}) \cup (IF partial THEN {"partial"} ELSE {})]

\* a start-up query failed (metadata.Load, failover log)
ApFail(o, e) == [o EXCEPT !.pend = @ \cup {IF e.what = "Load" THEN "load" ELSE "folog"}]

\* client.OpenStream(vb, offset): a stream request. e.off, e.end
\* (a first request of a session, or a re-open after a transient end)
ApOpenReq(o, e) ==
  LET v == e.vb
      fresh == o.store[v] = NoOff /\ e.off.seq > 0      \* auto-reset "latest": the position itself is news
      isReopen == v \in o.reopen
      \* the first request of a session starts the vBucket's settlement afresh (acknowledgements that arrived while
      \* the session was being set up belong to the previous one); a re-open continues it
      o1 == [o EXCEPT !.resume[v] = e.off, !.sess[v] = IF isReopen THEN @ \cup {e.off.seq} ELSE {e.off.seq},
                !.ever[v] = @ \cup {e.off.seq},
                !.streaming[v] = TRUE, !.expect[v] = <<>>, !.got[v] = <<>>,
                !.snap[v] = <<0 - 1, 0 - 1>>,
                \* (a re-open hands the same observer to the new stream: a catch-up mark armed by an earlier rollback stays armed)
                !.catchF[v] = IF isReopen THEN @ ELSE 0 - 1,
                !.origin[v] = @ \cup {e.off}, !.reopen = @ \ {v}, !.closereq = @ \ {v},
                !.kcnt[v] = IF isReopen THEN @ ELSE <<0, 0, 0>>, !.lastdoc[v] = "",
                !.adv[v] = IF isReopen THEN @ ELSE IF fresh THEN e.off.seq ELSE 0 - 1,
                !.saves = IF isReopen THEN @ ELSE {[x EXCEPT !.need[v] = 0 - 1] : x \in @}]
      o2 == Check(o1, ~o.closeReturned, "C13", "stream requested after Close() returned")
      o3 == Check(o2, v \notin o.ended, "C12", "a stream that ended for good was requested again")
      o4 == IF isReopen
            THEN Check(Check(o3, e.off.seq = MaxOf(o.sess[v] \cup {e.off.seq}) /\ e.off.seq \in o.sess[v], "C12",
                             "re-open after a transient end is not from the latest settled position"),
                       ValidOff(e.off) /\ e.off \in o.origin[v], "C12",
                       "re-open after a transient end does not carry the settled event's own snapshot / branch")
            ELSE o3
      \* (an inconsistent or partial checkpoint is noticed vBucket by vBucket while the streams are being requested: requests for
      \* the other vBuckets may be on their way; a failed query precedes every request)
      o4b == Check(o4, o.pend \cap {"load", "seq", "folog"} = {}, "C15",
                   "a stream was requested although checkpoints / sequence numbers / failover logs could not be loaded")
      o5 == Check(o4b, o.high[v] < 0 \/ e.off.seq <= o.high[v], "C15",
                  "stream requested from a position the server has not reached")
      \* C02: what a session's first request for v must carry
      noneStored == \A w \in o.range : o.store[w] = NoOff
      wantSeq == IF o.store[v] # NoOff THEN o.store[v].seq ELSE IF o.latest /\ noneStored THEN o.high[v] ELSE 0
      exact == IF o.store[v] # NoOff THEN e.off = o.store[v]
               ELSE IF o.latest /\ noneStored THEN e.off.seq = o.high[v] /\ e.off.ss = o.high[v] /\ e.off.se = o.high[v]
               ELSE e.off = ZeroOff
      o6 == IF isReopen \/ o.high[v] < 0 THEN o5
            ELSE Check(Check(o5, exact, "C02", "stream requested with something else than the persisted checkpoint / auto-reset position"),
                       e.end = (IF o.finite THEN o.high[v] ELSE MAXSEQ), "C02", "requested end is not what the dcp mode prescribes")
  \* (the stream requests of one Open are issued by concurrent goroutines: a request for another vBucket may still
  \*  go out while the goroutine that hit the fail-stop condition is about to stop the process - not judged here;
  \*  AfterStreamStart, a delivery, or a process that is still up once the step is over are)
  IN  o6

\* the server's answer: e.uuid = first failover entry; e.rollback = TRUE when the stream was
\* opened after a rollback to e.r (then e.f = position the client had reached)
ApOpenRet(o, e) ==
  LET v == e.vb IN
  IF e.ok THEN [o EXCEPT !.uuid[v] = e.uuid, !.catchF[v] = IF e.rollback THEN e.f ELSE @, !.pendopen = @ \ {v}]
  ELSE [o EXCEPT !.streaming[v] = FALSE, !.pendopen = IF o.phase \in {"st1", "re2"} THEN @ \cup {v} ELSE @]

\* ---- C07 ---------------------------------------------------------------------------------------------------
\* the largest s such that every listed copy has reported, under one common vbUUID, a persisted seqno >= s (0: none)
Listed(t) == {i \in DOMAIN t : ~t[i].absent}
CommonMin(t) ==
  IF Listed(t) = {} THEN 0
  ELSE LET u == t[CHOOSE i \in Listed(t) : TRUE].uuid IN
       IF \E i \in Listed(t) : t[i].uuid # u THEN 0
       ELSE CHOOSE m \in {t[i].seq : i \in Listed(t)} : \A i \in Listed(t) : t[i].seq >= m
MonGateSeq(x) == IF x.k = "mark" THEN x.s ELSE x.q

\* any settlement while saves are in flight makes them non-idle
Touch(o) == [o EXCEPT !.saves = {[s EXCEPT !.idle = FALSE] : s \in @}, !.news = TRUE]
\* nothing that may go is left waiting (the harness lets the library run to a standstill before it looks)
GateIdle(o) ==
  Check(o, \A v \in VB : ~(o.gwait[v] >= 0 /\ (o.gwait[v] <= o.best[v] \/ o.closeReturned \/ o.stoppedSeen)), "C07",
        "an event is still waiting although the threshold covers it / its stream is closed (lost wake-up)")
ApRmSwitch(o, e) ==
  [(IF e.on THEN o ELSE GateIdle(o)) EXCEPT !.gate = e.on,
            !.tab = IF e.on THEN [v \in VB |-> IF o.tab[v] = <<>> THEN [i \in 1..e.slots |-> [uuid |-> 0, seq |-> 0, absent |-> FALSE]] ELSE o.tab[v]]
                    ELSE @]
ApReport(o, e) ==
  LET t == [o.tab[e.vb] EXCEPT ![e.slot] = [uuid |-> e.uuid, seq |-> e.seq, absent |-> FALSE]]
      m == CommonMin(t)
  IN  [o EXCEPT !.tab[e.vb] = t, !.best[e.vb] = IF m > @ THEN m ELSE @]
\* a copy that is no longer listed does not have to report: what the remaining ones reported together counts from now on
ApAbsent(o, e) ==
  LET t == [o.tab[e.vb] EXCEPT ![e.slot].absent = TRUE]
      m == CommonMin(t)
  IN  [o EXCEPT !.tab[e.vb] = t, !.best[e.vb] = IF m > @ THEN m ELSE @]
\* something of the event in flight became visible (delivery / tracked position)
GateCheck(o, v, q) ==
  IF o.gwait[v] >= 0 /\ q >= o.gwait[v] /\ o.gwait[v] > o.best[v]
  THEN Viol(o, "C07", "an event took effect before every listed copy had reported its seqno as persisted under one vbUUID")
  ELSE o

\* an event handed over while the gate is on settles its position only when the library lets it take effect (the tracked
\* position moves: Track); until then what ApSent recorded as settled is held back
ApGateSent(o, o1, e) ==
  LET v == e.vb IN
  IF ~o.gate THEN o1
  ELSE [o1 EXCEPT !.adv[v] = o.adv[v], !.sess[v] = o.sess[v], !.ever[v] = o.ever[v],
                  !.padv[v] = IF o1.adv[v] # o.adv[v] THEN o1.adv[v] ELSE 0 - 1,
                  !.psess[v] = IF o1.sess[v] # o.sess[v] \/ o1.ever[v] # o.ever[v] THEN e.e.q ELSE 0 - 1,
                  !.pdead[v] = o1.sess[v] = o.sess[v]]
GateApply(o, v, q) ==
  IF o.psess[v] < 0 \/ q # o.psess[v] THEN o
  ELSE LET o1 == [o EXCEPT !.ever[v] = @ \cup {q}, !.sess[v] = IF o.pdead[v] THEN @ ELSE @ \cup {q},
                           !.adv[v] = IF o.padv[v] > @ THEN o.padv[v] ELSE @, !.psess[v] = 0 - 1, !.padv[v] = 0 - 1]
       IN  IF o.padv[v] >= 0 THEN Touch(o1) ELSE o1
ApGateDone(o, e) ==
  LET v == e.vb
      o1 == IF o.gwait[v] >= 0 /\ o.gwait[v] > o.best[v] /\ ~o.closing /\ o.up
            THEN Viol(o, "C07", "an event did not wait although not every listed copy had reported its seqno as persisted") ELSE o
  IN  [o1 EXCEPT !.gwait[v] = 0 - 1, !.padv[v] = 0 - 1, !.psess[v] = 0 - 1]

\* the server sent event e.e on the stream of e.vb (it is handed to the library)
ApSent(o, e) ==
  LET v == e.vb
      x == e.e
      dead == o.closing \/ ~o.streaming[v]        \* the event arrives on a stream the library has closed / not requested
      o0 == [o EXCEPT !.inpush[v] = TRUE,
                      !.gwait[v] = IF o.gate THEN MonGateSeq(x) ELSE 0 - 1,
                      !.high[v] = IF x.k # "mark" /\ @ >= 0 /\ x.q > @ THEN x.q ELSE @]   \* the server has reached x.q
  IN
  IF x.k = "mark" THEN [o0 EXCEPT !.snap[v] = <<x.s, x.e>>]
  ELSE IF x.k = "adv" THEN
       LET f == Off(o.uuid[v], x.q, x.q, x.q) IN
       [o0 EXCEPT !.snap[v] = <<x.q, x.q>>, !.origin[v] = @ \cup {f},
                  !.ever[v] = @ \cup {x.q},
                  !.sess[v] = IF dead THEN @ ELSE @ \cup {x.q},
                  !.adv[v] = IF dead \/ v \notin o.range THEN @ ELSE IF x.q > @ THEN x.q ELSE @]
  ELSE \* document or system event
       LET f == Off(o.uuid[v], x.q, o.snap[v][1], o.snap[v][2])
           filtered == (IsDoc(x) /\ x.old) \/ (o.catchF[v] >= 0 /\ x.q <= o.catchF[v])
           inside == o.snap[v][1] <= x.q /\ x.q <= o.snap[v][2]
           o1 == [o0 EXCEPT !.origin[v] = IF inside THEN @ \cup {f} ELSE @]
       IN
       IF filtered THEN [o1 EXCEPT !.lastdoc[v] = ""]
       ELSE IF ~inside THEN [o1 EXCEPT !.mustdie = TRUE]
       ELSE IF Absorbable(x) THEN
            [o1 EXCEPT !.lastdoc[v] = IF IsDoc(x) THEN x.k ELSE "",
                       !.ever[v] = @ \cup {x.q},
                       !.sess[v] = IF dead THEN @ ELSE @ \cup {x.q},
                       !.adv[v] = IF dead \/ v \notin o.range \/ ~NonDocAdvance(x) THEN @
                                  ELSE IF x.q > @ THEN x.q ELSE @]
       ELSE IF IsDoc(x) /\ ~dead
            THEN [o1 EXCEPT !.expect[v] = Append(@, [k |-> x.k, q |-> x.q, off |-> f]), !.lastdoc[v] = x.k]
            ELSE [o1 EXCEPT !.lastdoc[v] = ""]

\* the call that handed the event to the library returned
ApPushed(o, e) ==
  LET v == e.vb
      BumpK(c, k) == IF k = "mut" THEN <<c[1] + 1, c[2], c[3]>> ELSE IF k = "del" THEN <<c[1], c[2] + 1, c[3]>>
                     ELSE IF k = "exp" THEN <<c[1], c[2], c[3] + 1>> ELSE c
      o1 == [o EXCEPT !.inpush[v] = FALSE, !.kcnt[v] = BumpK(@, o.lastdoc[v]), !.lastdoc[v] = ""]
      o2 == Check(o1, ~o.mustdie, "C06", "event outside its snapshot did not stop the client")
  IN  IF o.closing \/ ~o.streaming[v] THEN o2
      ELSE Check(o2, Len(o.got[v]) = Len(o.expect[v]), "C03", "document event sent but not delivered")

\* ConsumeEvent(ctx): e.vb, e.k, e.q, e.key, e.off
ApConsume(o, e) ==
  LET v == e.vb
      n == Len(o.got[v]) + 1
      o1 == [o EXCEPT !.got[v] = Append(@, [k |-> e.k, q |-> e.q, off |-> e.off])]
      o2 == Check(o1, n <= Len(o.expect[v]) /\ o.expect[v][n] = [k |-> e.k, q |-> e.q, off |-> e.off],
                  "C03", "delivered event is not the next expected one (order, duplicate, filter or offset)")
      o3 == Check(o2, e.key = "user", "C14", "event under a reserved prefix shown to the consumer")
      o4 == Check(o3, ValidOff(e.off) /\ e.off \in o.origin[v] /\ e.off.seq = e.q /\ e.off.uuid = o.uuid[v],
                  "C06", "delivered offset is not the event's own resume point")
      o5a == Check(o4, ~o.closing, "C11", "event delivered while the stream is closed")
      o5 == Check(o5a, ~o.closeReturned, "C13", "event handed to the consumer after Close() returned")
      o6 == Check(o5, o.catchF[v] < 0 \/ e.q > o.catchF[v], "C08",
                  "an event at or below the position already reached was shown again after a rollback")
  IN  Check(o6, ~o.mustdie, "C06", "event outside its snapshot was delivered")

\* consumer.TrackOffset(vb, off)
ApTrack(o, e) ==
  LET v == e.vb
      o1 == Check(o, e.off \in o.origin[v] /\ ValidOff(e.off), "C06", "tracked offset is torn or never issued")
      o2 == Check(o1, ~o.mustdie, "C06", "event outside its snapshot moved the position")
  IN  IF o.closing THEN o2      \* no session: an acknowledgement lands in the maps that the next Load replaces
      ELSE Check(o2, v \in o.range /\ e.off.seq = MaxOf(o.sess[v] \cup {e.off.seq}) /\ e.off.seq \in o.sess[v],
                 "C04", "tracked position is not the furthest settled one")

\* the consumer invoked Ack of the context that carried e.off for e.vb
\* (the monitor sees it before the library does)
ApAck(o, e) ==
  LET v == e.vb IN
  IF ~o.up THEN o ELSE
  [o EXCEPT !.ever[v] = @ \cup {e.off.seq},
            !.sess[v] = IF v \in o.range THEN @ \cup {e.off.seq} ELSE @,
            !.owned = IF v \in o.range THEN @ \cup {v} ELSE @,
            \* the acknowledgement ADVANCES the position only if it lies above everything settled so far
            \* (a reserved-key event may have moved the position past it without flagging it for saving, C14)
            !.adv[v] = IF v \in o.range /\ e.off.seq > @ /\ e.off.seq > MaxOr(o.sess[v], 0 - 1) THEN e.off.seq ELSE @]

\* Ack() was invoked and is still inside the consumer's TrackOffset: the position counts as settled (C05: "settled before that
\* save began") only when the call has returned - a save that begins in between owes it nothing yet
ApAckHeld(o, e) ==
  LET v == e.vb  o1 == ApAck(o, e) IN
  IF ~o.up THEN o ELSE [o1 EXCEPT !.adv[v] = o.adv[v], !.hadv[v] = IF o1.adv[v] # o.adv[v] THEN o1.adv[v] ELSE 0 - 1]
ApAckDone(o, e) ==
  LET v == e.vb IN [o EXCEPT !.adv[v] = IF o.hadv[v] > @ THEN o.hadv[v] ELSE @, !.hadv[v] = 0 - 1]

\* Save()/Commit() was called by thread e.t
ApSaveCall(o, e) ==
  [o EXCEPT !.saves = {s \in @ : s.t # e.t} \cup
      {[t |-> e.t, need |-> [v \in VB |-> IF v \in Pending(o) THEN o.adv[v] ELSE 0 - 1],
        idle |-> Unconfirmed(o) = {} /\ ~o.news, valid |-> [v \in VB |-> {}], begun |-> FALSE, failed |-> FALSE,
        rng |-> {}]}]

SaveOf(o, t) == CHOOSE s \in o.saves : s.t = t
HasSave(o, t) == \E s \in o.saves : s.t = t
UpdSave(o, t, s2) == [o EXCEPT !.saves = {s \in @ : s.t # t} \cup {s2}]

\* metadata.Save(dump, dirty) entered.  e.dump : VB -> Off | NoOff ; e.dirty : ascending sequence of vb
ApSaveBegin(o, e) ==
  LET s == IF HasSave(o, e.t) THEN SaveOf(o, e.t)
           ELSE [t |-> e.t, need |-> [v \in VB |-> 0 - 1], idle |-> FALSE,
                 valid |-> [v \in VB |-> {}], begun |-> FALSE, failed |-> FALSE, rng |-> {}]
      \* the vBuckets assigned when the dump was taken are the ones this save may write
      s2 == [s EXCEPT !.begun = TRUE, !.valid = [v \in VB |-> o.ever[v]], !.rng = o.range \cup o.owned]
      o1 == [UpdSave(o, e.t, s2) EXCEPT !.news = FALSE]
      bad == {v \in SeqToSet(e.dirty) : e.dump[v] # NoOff /\
                 ~(ValidOff(e.dump[v]) /\ e.dump[v] \in o.origin[v])}
  IN  Check(o1, bad = {}, "C06", "offset handed to the metadata store is torn or never issued")

\* the backend made e.off durable for e.vb as part of save e.t
ApStoreWrite(o, e) ==
  LET v == e.vb
      s == SaveOf(o, e.t)
      o0 == Check(o, ~o.readonly, "C02", "a checkpoint was written in read-only metadata mode")
      o1 == [o0 EXCEPT !.store[v] = e.off]
      o2 == Check(o1, HasSave(o, e.t) /\ s.begun /\ e.off.seq \in s.valid[v],
                  "C01", "durable checkpoint names a position that was not settled before the write began")
      o3 == IF HasSave(o, e.t) /\ s.idle
            THEN Viol(Viol(o2, "C05", "a save issued when nothing changed performed a write"),
                      "C14", "a checkpoint was written although nothing but reserved-key events had happened")
            ELSE o2
      o4 == Check(o3, ValidOff(e.off) /\ e.off \in o.origin[v], "C06", "stored offset is torn or never issued")
  IN  Check(o4, HasSave(o, e.t) /\ v \in s.rng, "C04", "checkpoint written for a vBucket outside the assigned range")

\* metadata.Save returned (e.ok)
ApSaveEnd(o, e) ==
  LET o0 == IF e.t = "main" /\ ~e.ok THEN [o EXCEPT !.finalFailed = TRUE] ELSE o
      o1 == IF e.ok THEN [o0 EXCEPT !.conf = [v \in VB |-> StoreSeq(o, v)], !.owned = {}] ELSE Touch(o0) IN
  IF ~HasSave(o, e.t) THEN o1
  ELSE UpdSave(o1, e.t, [SaveOf(o1, e.t) EXCEPT !.failed = ~e.ok])

\* Save()/Commit() returned to its caller
ApSaveRet(o, e) ==
  IF ~HasSave(o, e.t) THEN o ELSE
  LET s == SaveOf(o, e.t)
      o1 == [o EXCEPT !.saves = {x \in @ : x.t # e.t}]
      lost == {v \in VB : s.need[v] >= 0 /\ StoreSeq(o, v) < s.need[v]}
  IN  IF s.failed \/ o.readonly THEN o1
      ELSE Check(o1, lost = {}, "C05", "save completed but a position settled before it began is not stored")


\* bracket grammar of the lifecycle callbacks: phase x callback -> phase
NextPhase(ph, n) ==
  CASE ph = "init"  /\ n = "BeforeStreamStart"    -> "st1"
    [] ph = "st1"   /\ n = "AfterStreamStart"     -> "open"
    [] ph = "open"  /\ n = "BeforeRebalanceStart" -> "rb1"
    [] ph = "rb1"   /\ n = "BeforeStreamStop"     -> "rb2"
    [] ph = "rb2"   /\ n = "AfterStreamStop"      -> "rb3"
    [] ph = "rb3"   /\ n = "AfterRebalanceStart"  -> "delay"
    [] ph = "delay" /\ n = "BeforeRebalanceEnd"   -> "re1"
    [] ph = "re1"   /\ n = "BeforeStreamStart"    -> "re2"
    [] ph = "re2"   /\ n = "AfterStreamStart"     -> "re3"
    [] ph = "re3"   /\ n = "AfterRebalanceEnd"    -> "open"
    [] ph = "open"  /\ n = "BeforeStreamStop"     -> "cl1"
    [] ph = "cl1"   /\ n = "AfterStreamStop"      -> "closed"
    [] OTHER -> "bad"

ApCallback(o, e) ==
  LET np == NextPhase(o.phase, e.name)
      oa == IF np = "bad" THEN Viol(o, "C11", "lifecycle callbacks are not properly bracketed")
            ELSE [o EXCEPT !.phase = np]
      \* the next rebalance begins while the handler of a callback of the previous one has not returned: the brackets overlap
      o0 == IF e.name = "BeforeRebalanceStart" /\ o.incb # ""
            THEN Viol(oa, "C11", "a rebalance began while a lifecycle callback of the previous one was still being handled") ELSE oa
      o1 == IF e.name = "BeforeStreamStop" THEN [o0 EXCEPT !.closing = TRUE]
            ELSE IF e.name = "AfterStreamStop"
                 \* the session is over: nothing is assigned any more, unsaved positions of the session are given up
                 \* (its events are delivered again after the re-open); C13 keeps its own obligation (needClose)
                 THEN [o0 EXCEPT !.streaming = [v \in VB |-> FALSE], !.adv = [v \in VB |-> 0 - 1],
                                 !.saves = {[x EXCEPT !.need = [v \in VB |-> 0 - 1]] : x \in @}]
            ELSE o0
      o2 == IF e.name = "BeforeRebalanceStart"
            THEN Check([o1 EXCEPT !.ncycles = @ + 1], o.ncycles + 1 <= o.nbursts, "C11",
                       "the stream was closed more than once for one burst of notifications")
            ELSE o1
      o3 == IF e.name = "BeforeRebalanceEnd" THEN [o2 EXCEPT !.burstOpen = FALSE]
            ELSE IF e.name = "AfterRebalanceEnd" THEN [o2 EXCEPT !.nreb = @ + 1] ELSE o2
      o4 == IF e.name = "AfterStreamStart"
            THEN Check(Check(o3, \A v \in o.range : o.streaming[v] \/ v \in o.ended \/ v \in o.reopen, "C15",
                             "session runs although not every assigned vBucket stream was opened"),
                       o.pend = {} /\ o.pendopen = {}, "C15",
                       "a session runs although checkpoints / sequence numbers could not be loaded, a checkpoint lies beyond the high seqno, or a stream request was refused")
            ELSE o3
  IN  o4

\* a membership change reached the stream (bus / API): e.src, e.member, e.total
ApNotify(o, e) ==
  [o EXCEPT !.minfo = <<e.member, e.total>>,
            !.nbursts = IF o.burstOpen THEN @ ELSE @ + 1, !.burstOpen = TRUE]

\* the server ended the stream of e.vb with e.cause
ApEndSent(o, e) ==
  LET v == e.vb IN
  IF ~o.streaming[v] THEN o
  \* (also while the session is still being opened: the vBuckets already streaming are as open as they will be)
  ELSE IF e.cause \in TransientCauses /\ ~o.closing /\ ~o.closeCalled /\ o.phase \in {"open", "st1", "re2"}
  THEN [o EXCEPT !.reopen = @ \cup {v}, !.streaming[v] = FALSE]
  ELSE IF o.closing \/ v \in o.closereq THEN [o EXCEPT !.streaming[v] = FALSE]
  ELSE [o EXCEPT !.ended = @ \cup {v}, !.streaming[v] = FALSE]

ApCloseReq(o, e) == [o EXCEPT !.closereq = @ \cup {e.vb}]

\* the stop channel was closed: the client stops on its own
ApStopped(o, e) ==
  LET o1 == [o EXCEPT !.stoppedSeen = TRUE] IN
  IF o.closeCalled THEN o1      \* Close() was asked for: not a stop "on its own"
  ELSE IF o.phase \in {"rb1", "rb2", "rb3", "delay", "re1", "re2", "re3"}
  THEN Viol(o1, "C11", "a rebalance terminated the client")
  ELSE Check(o1, o.range # {} /\ o.range \subseteq o.ended, "C12",
             "the client stopped although an assigned vBucket stream had not ended for good")

ApCloseCall(o, e) ==
  [o EXCEPT !.closeCalled = TRUE,
            !.needClose = [v \in VB |-> IF o.auto /\ v \in Pending(o) THEN o.adv[v] ELSE 0 - 1]]

ApCloseReturn(o, e) ==
  LET lost == {v \in VB : o.needClose[v] >= 0 /\ StoreSeq(o, v) < o.needClose[v]}
      open_ == {v \in VB : o.streaming[v] /\ v \notin o.closereq}
      o1 == [o EXCEPT !.closeReturned = TRUE]
      o2 == Check(o1, lost = {} \/ o.readonly \/ o.finalFailed, "C13", "Close() returned but a position settled before the call is not stored")
  IN  Check(o2, open_ = {}, "C13", "Close() returned but a vBucket stream was never closed")

\* a scrape of the metrics endpoint returned e (C16)
ApScrape(o, e) ==
  IF e.closed THEN o
  ELSE
  LET live == o.phase = "open" /\ ~o.closing /\ ~o.closeCalled
      none == <<0 - 1, 0 - 1, 0 - 1>>
      posOK(v) == IF v \in o.range
                  THEN e.pos[v] # none /\ e.pos[v][1] = MaxOf(o.sess[v])
                       /\ \E f \in o.origin[v] : <<f.seq, f.ss, f.se>> = e.pos[v]
                  ELSE e.pos[v] = none
      lagOf(v) == IF e.pos[v] = none THEN 0 ELSE IF o.shigh[v] > e.pos[v][1] THEN o.shigh[v] - e.pos[v][1] ELSE 0
      RECURSIVE SumL(_)
      SumL(S) == IF S = {} THEN 0 ELSE LET x == CHOOSE y \in S : TRUE IN lagOf(x) + SumL(S \ {x})
      cntOK(v) == \/ e.cnt[v] = o.kcnt[v]
                  \/ (o.inpush[v] /\ o.lastdoc[v] # "" /\ \E k \in 1..3 : e.cnt[v] = [o.kcnt[v] EXCEPT ![k] = @ + 1])
      o1 == Check(o, \A v \in VB : e.lag[v] = lagOf(v), "C16", "lag gauge is not max(0, high seqno - tracked seqno)")
      o2 == Check(o1, e.total = SumL(VB), "C16", "total lag is not the sum of the per-vBucket lags")
      o3 == IF live /\ \A v \in VB : ~o.inpush[v]
            THEN Check(o2, \A v \in VB : posOK(v), "C16", "position gauges differ from the tracked position and its snapshot") ELSE o2
      o4 == IF live THEN Check(o3, \A v \in o.range : cntOK(v), "C16", "mutation/deletion/expiration counters differ from the events accepted in the session") ELSE o3
      o5 == IF live /\ ~o.stoppedSeen THEN Check(o4, e.active = Cardinality(o.range \ o.ended), "C16", "active-stream gauge is wrong") ELSE o4
      o6 == Check(o5, e.rebalances = o.nreb, "C16", "rebalance counter differs from the completed rebalances")
  IN  IF live THEN Check(o6, <<e.member, e.totalm>> = o.sminfo /\ e.rlo = ChunkLoP(e.totalm, e.member) /\ e.rhi = ChunkHiP(e.totalm, e.member),
                         "C16", "member number / group size / vBucket range gauges are not the values in effect")
      ELSE o6

\* the run is over: nothing is pending anywhere (every gate released, no timer armed, a last save done)
ApQuiesced(o, e) ==
  LET running == o.up /\ o.phase = "open" /\ ~o.closeCalled /\ ~o.stoppedSeen
      o1 == IF running THEN Check(o, o.nbursts = o.ncycles, "C11",
                                  "a burst of notifications was never followed by its close / re-open") ELSE o
      o2 == IF running /\ o.range # {} /\ o.range \subseteq o.ended
            THEN Viol(o1, "C12", "every assigned vBucket stream ended for good but the client did not stop") ELSE o1
      o3 == IF o.closeCalled \/ o.stoppedSeen
            THEN Check(o2, o.closeReturned, "C13", "Close() did not return although nothing was pending any more") ELSE o2
      o4 == IF o.up THEN Check(o3, o.pend = {} /\ o.pendopen = {}, "C15",
                               "the client neither terminated nor overcame a failed start-up query / refused stream request") ELSE o3
  IN  IF o.up THEN GateIdle(o4) ELSE o4

ApDiedLife(o, e) ==
  IF o.closeCalled /\ ~o.closeReturned THEN Viol(o, "C13", "the client crashed inside Close()") ELSE o

\* API-visible state after a step: e.offsets : VB -> Off | NoOff, e.open
ApState(o, e) ==
  LET bad == {v \in o.range : e.offsets[v] = NoOff \/ e.offsets[v].seq # MaxOf(o.sess[v])}
      torn == {v \in o.range : e.offsets[v] # NoOff /\ ~(ValidOff(e.offsets[v]) /\ e.offsets[v] \in o.origin[v])}
      stray == {v \in VB \ o.range : e.offsets[v] # NoOff}
      o1 == IF e.open /\ ~o.closing /\ \A v \in VB : ~o.inpush[v]
            THEN Check(o, bad = {}, "C04", "position exposed by the offsets API is not the furthest settled one")
            ELSE o
      o2 == IF e.open /\ ~o.closing
            THEN Check(o1, stray = {}, "C04", "position tracked for a vBucket outside the assigned range")
            ELSE o1
      o2b == IF e.open /\ ~o.closing
             THEN Check(o2, torn = {}, "C06", "an offset exposed by the offsets API is torn (fields of two events / snapshots)") ELSE o2
      o3 == Check(o2b, o.reopen = {}, "C12", "a transient stream end was not followed by a re-open")
      o4 == IF o.phase = "open" /\ ~o.closeCalled /\ ~o.stoppedSeen
            THEN Check(o3, e.active = Cardinality(o.range \ o.ended), "C12",
                       "active-stream count differs from the number of assigned vBuckets not finally ended")
            ELSE o3
      o5 == o4
      o6 == Check(o5, \A v \in VB : e.thr[v] <= o.best[v], "C07", "the threshold of a stream is ahead of what the listed copies reported")
      o7 == Check(o6, \A v \in VB : e.thr[v] >= o.lthr[v], "C07", "the threshold of a stream decreased")
  IN  [o7 EXCEPT !.lthr = e.thr]

Apply0(o, e) ==
  CASE e.ev = "Boot"       -> ApBoot(o, e)
    \* the process ends as the direct consequence of an event the server was entitled to send (inside its announced snapshot, or
    \* a marker / seqno-advanced) on a stream that is open: only an event OUTSIDE its snapshot may stop the client
    [] e.ev = "Died"       -> ApDied(ApDiedLife(IF o.fresh # 0 /\ ~o.mustdie /\ o.streaming[o.fresh] /\ ~o.closing
                                                  THEN Viol(o, "C06", "an event inside its announced snapshot stopped the client") ELSE o, e), e)
    [] e.ev = "Crash"      -> ApDied(o, e)
    [] e.ev = "SeqNos"     -> ApSeqNos(o, e)
    [] e.ev = "Fail"       -> ApFail(o, e)
    [] e.ev = "Notify"     -> ApNotify(o, e)
    [] e.ev = "EndSent"    -> ApEndSent(o, e)
    [] e.ev = "CloseReq"   -> ApCloseReq(o, e)
    [] e.ev = "Stopped"    -> ApStopped(o, e)
    [] e.ev = "CloseCall"  -> ApCloseCall(o, e)
    [] e.ev = "CloseReturn" -> ApCloseReturn(o, e)
    [] e.ev = "Quiesced"   -> ApQuiesced(o, e)
    \* (reported by the rig only, at the end of a run that left the specification: the rebalance timers were fired a dozen times
    \* over - each time the configured delay has elapsed -, every request was answered, nothing was announced, and the stream that a
    \* rebalance closed is still closed with a timer armed once more. Core.tla: ReopenArmed - in the delay phase the armed timer re-opens)
    [] e.ev = "Stalled"    -> IF o.up /\ o.phase = "delay" /\ ~o.closeCalled /\ ~o.stoppedSeen
                              THEN Viol(o, "C11", "the stream was closed for a rebalance and is not reopened however often the configured delay elapses")
                              ELSE o
    [] e.ev = "Scrape"     -> ApScrape(o, e)
    [] e.ev = "HookScrape" -> Check(o, e.ok, "C16", "a scrape issued from a lifecycle callback crashed or did not return")
    [] e.ev = "Load"       -> ApLoad(o, e)
    [] e.ev = "OpenReq"    -> ApOpenReq(o, e)
    [] e.ev = "OpenRet"    -> ApOpenRet(o, e)
    [] e.ev = "Sent"       -> ApGateSent(o, IF NonDocAdvance(e.e) THEN Touch(ApSent(o, e)) ELSE ApSent(o, e), e)
    [] e.ev = "Pushed"     -> ApPushed(ApGateDone(o, e), e)
    [] e.ev = "Consume"    -> LET o1 == ApConsume(GateCheck(o, e.vb, e.q), e) IN [o1 EXCEPT !.gwait[e.vb] = 0 - 1]
    [] e.ev = "Track"      -> ApTrack(GateApply(GateCheck(o, e.vb, e.off.seq), e.vb, e.off.seq), e)
    [] e.ev = "RmSwitch"   -> ApRmSwitch(o, e)
    [] e.ev = "Report"     -> ApReport(o, e)
    [] e.ev = "Absent"     -> ApAbsent(o, e)
    [] e.ev = "Ack"        -> Touch(ApAck(o, e))
    [] e.ev = "AckHeld"    -> Touch(ApAckHeld(o, e))
    [] e.ev = "AckDone"    -> Touch(ApAckDone(o, e))
    [] e.ev = "SaveCall"   -> ApSaveCall(o, e)
    [] e.ev = "SaveBegin"  -> ApSaveBegin(o, e)
    \* the state handed to metadata.Save lacks assigned vBuckets of the session: a backend that stores the state as a whole
    \* (the file backend) loses their checkpoints
    [] e.ev = "SaveArgsPartial" -> IF o.closing THEN o ELSE Viol(o, "C02", "a save does not carry the checkpoint of every assigned vBucket: a whole-state backend (file) would lose the others")
    [] e.ev = "StoreWrite" -> ApStoreWrite(o, e)
    [] e.ev = "SaveEnd"    -> ApSaveEnd(o, e)
    [] e.ev = "SaveRet"    -> ApSaveRet(o, e)
    [] e.ev = "Callback"   -> ApCallback(o, e)
    [] e.ev = "CallbackHeld" -> [o EXCEPT !.incb = e.name]
    [] e.ev = "CallbackDone" -> [o EXCEPT !.incb = ""]
    [] e.ev = "State"      -> ApState(o, e)
    [] OTHER               -> o

Apply(o, e) == LET o1 == Apply0(o, e) IN [o1 EXCEPT !.fresh = IF e.ev = "Sent" THEN e.vb ELSE 0]

RECURSIVE Fold(_, _)
Fold(o, es) == IF es = <<>> THEN o ELSE Fold(Apply(o, Head(es)), Tail(es))

-----------------------------------------------------------------------------
(* the invariants, one per listed property                                   *)
NoViol(o, id) == \A x \in o.viol : x[1] # id

\* C01 also as a plain state predicate: what is durable was settled
C01State(o) == \A v \in VB : o.store[v] = NoOff \/ o.store[v].seq \in o.ever[v]
=============================================================================
