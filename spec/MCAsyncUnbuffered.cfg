SPECIFICATION Spec
CONSTANTS SigCap = 0 ResCap = 1 Outcomes = {"ok", "fail"}
INVARIANTS Truth NoBlock
PROPERTIES Returns CallbackFinishes
CHECK_DEADLOCK FALSE
