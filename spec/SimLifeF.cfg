SPECIFICATION SimSpec
CONSTANTS
  NVB = 1
  InitLog <- EmptyLog
  MaxSeq = 2
  Keys = {"user"}
  Kinds = {"mut"}
  OldEvents = FALSE
  BadEvents = FALSE
  FoUuid <- Fo10
  Savers = {"p"}
  MaxSaves = 2
  MaxCrash = 0
  MaxAcks = 2
  MaxGen = 4
  MaxNotify = 0
  MaxEnds = 0
  MaxFail = 0
  AutoReset = "earliest"
  Finite = FALSE
  AutoCkpt = TRUE
  Infos <- Infos2
  Info0 <- Info11
  EndCauses = {"socket", "statechanged", "ok"}
  Hold = FALSE
  AllowClose = TRUE
  Rollbacks = FALSE
  FailSaves = TRUE
  Focus = FALSE
  Record = TRUE
  ReadOnly = FALSE
  AckSplit = FALSE
  HoldCb = FALSE
  RM = FALSE
  Slots = 1
  RmUuids = {1, 2}
  RmMonotone = FALSE
  Scrapes = FALSE
  HookScrapes = FALSE
  Marking = FALSE
  WindAt = 26
  Gaps = {}
  Bugs = {}
  D = 40
INVARIANTS DumpSched
CHECK_DEADLOCK FALSE
