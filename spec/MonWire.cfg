SPECIFICATION MSpec
INVARIANT Done
CHECK_DEADLOCK FALSE
