SPECIFICATION RSpec
CONSTANTS
  NVB = 2
  Hist <- HistA
  FoUuid <- FoA
  Savers = {"p", "c"}
  MaxSaves = 10
  MaxCrash = 3
  MaxAcks = 10
  AutoReset = "earliest"
  FailSaves = TRUE
  Focus = TRUE
  Record = TRUE
  Bugs = {"F1","F7"}
INVARIANTS DumpSched
CHECK_DEADLOCK FALSE
