------------------------------ MODULE DataUnit ------------------------------
(***************************************************************************************************************)
(* C17, size strings - helpers/data_units.go ResolveUnionIntOrStringValue / convertSizeUnitToByte transcribed:     *)
(* a plain integer string is itself; otherwise the last two characters are the unit (any letter case), the rest,  *)
(* trimmed, with ',' read as '.', is a decimal number; the result is number x 1024^k truncated to an integer.      *)
(* The input is kept structured (integer part, fraction digits, separator, blanks, unit spelling) so that the      *)
(* expected value is computed exactly in integers; TLC enumerates the grid, checks the arithmetic facts and prints  *)
(* one row per input with the rendered string; the real function's results are re-checked by MonConfig.tla.        *)
(* TLC integers are 32 bit: gigabyte inputs stay below 2 gb.                                                       *)
(***************************************************************************************************************)
EXTENDS Integers, Sequences, FiniteSets, TLC, Json
CONSTANTS IntParts, Fracs, Units

VARIABLES kind, ip, frac, sep, lead, mid, unit
vars == <<kind, ip, frac, sep, lead, mid, unit>>

Pow10(n) == IF n = 0 THEN 1 ELSE IF n = 1 THEN 10 ELSE IF n = 2 THEN 100 ELSE 1000
FracVal(f) == IF Len(f) = 0 THEN 0 ELSE IF Len(f) = 1 THEN f[1] ELSE IF Len(f) = 2 THEN f[1] * 10 + f[2] ELSE f[1] * 100 + f[2] * 10 + f[3]
Exp(u) == IF u \in {"kb", "KB", "Kb", "kB"} THEN 1 ELSE IF u \in {"mb", "MB", "Mb", "mB"} THEN 2 ELSE 3
\* trunc((i + f/D) * 1024^k) without leaving 32 bits: one factor 1024 at a time on (integer part, remainder over D)
Mul(pair, D) == <<pair[1] * 1024 + (pair[2] * 1024) \div D, (pair[2] * 1024) % D>>
RECURSIVE Times(_, _, _)
Times(pair, D, k) == IF k = 0 THEN pair ELSE Times(Mul(pair, D), D, k - 1)
Expected(i, f, u) == Times(<<i, FracVal(f)>>, Pow10(Len(f)), Exp(u))[1]

Blanks(n) == IF n = 0 THEN "" ELSE IF n = 1 THEN " " ELSE "  "
RECURSIVE Digits(_)
Digits(f) == IF f = <<>> THEN "" ELSE ToString(Head(f)) \o Digits(Tail(f))
Render == IF kind = "plain" THEN ToString(ip)
          ELSE Blanks(lead) \o ToString(ip) \o (IF frac = <<>> THEN "" ELSE sep \o Digits(frac)) \o Blanks(mid) \o unit

Fits(i, u) == (Exp(u) = 3 => i <= 1) /\ (Exp(u) = 2 => i <= 2047) /\ (Exp(u) = 1 => i <= 2000000)
Init == \/ /\ kind = "plain" /\ ip \in IntParts /\ frac = <<>> /\ sep = "" /\ lead = 0 /\ mid = 0 /\ unit = ""
        \/ /\ kind = "size" /\ ip \in IntParts /\ frac \in Fracs /\ unit \in Units /\ Fits(ip, unit)
           /\ sep \in (IF frac = <<>> THEN {""} ELSE {".", ","}) /\ lead \in 0..1 /\ mid \in 0..2
Next == UNCHANGED vars
Spec == Init /\ [][Next]_vars

\* facts about the arithmetic the property states
Want == IF kind = "plain" THEN ip ELSE Expected(ip, frac, unit)
Whole == (kind = "size" /\ frac = <<>>) => Want = ip * (IF Exp(unit) = 1 THEN 1024 ELSE IF Exp(unit) = 2 THEN 1048576 ELSE 1073741824)
Bracket == kind = "size" => LET D == Pow10(Len(frac)) IN
             \* Want <= (ip + f/D) * 1024^k < Want + 1, checked one factor at a time through the remainders
             Times(<<ip, FracVal(frac)>>, D, Exp(unit))[2] \in 0..(D - 1)
CaseBlind == kind = "size" => \A u2 \in Units : Exp(u2) = Exp(unit) => Expected(ip, frac, u2) = Want
Emit == PrintT(<<"UNIT", ToJson([kind |-> kind, ip |-> ip, frac |-> frac, unit |-> unit, s |-> Render])>>)
=============================================================================
