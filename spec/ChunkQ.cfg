SPECIFICATION Spec
CONSTANTS MaxN = 1024
 NSet <- NSetQ
INVARIANTS Partition ClosedForm Emit
CHECK_DEADLOCK FALSE
