------------------------------ MODULE SimCore ------------------------------
(* simulation front-end of Core: random behaviours of fixed length, printed as JSON schedules *)
EXTENDS MCBase, Json
CONSTANT D
Nop == /\ UNCHANGED <<envVars, obsvVars, strVars, synVars, thrVars, marks, emitv, obs>>
       /\ hist' = Append(hist, [l |-> [a |-> "Nop"]])
SimNext == Next \/ Nop
SimSpec == Init /\ [][SimNext]_vars
CfgJson == [NVB |-> NVB, InitLog |-> InitLog, FoUuid |-> FoUuid, AutoReset |-> AutoReset, Finite |-> Finite,
            AutoCkpt |-> AutoCkpt, Info0 |-> Info0, Slots |-> Slots, ReadOnly |-> ReadOnly, HookScrapes |-> HookScrapes, HoldCb |-> HoldCb]
DumpSched == (Len(hist) = D /\ ~LockHandoff /\ ~GateReady /\ ~ROReady) => PrintT(<<"SCHED", ToJson([cfg |-> CfgJson, steps |-> hist])>>)
=============================================================================
