------------------------------ MODULE MonVersion ------------------------------
(* C18 judged on what the REAL Version methods and parser returned: version.ndjson, lines
   {"a":[..],"b":[..],"h":bool,"e":bool,"l":bool,"hr":bool,"ga":[expiry,change,serial],"gb":[..],"pa":[..]|[]}
   h/e/l = a.Higher(b)/Equal/Lower, hr = b.Higher(a), ga/gb the gates of a/b, pa = parse of a's rendering. *)
EXTENDS Integers, Sequences, FiniteSets, TLC, Json
VARIABLES i, bad
Trace == ndJsonDeserialize("version.ndjson")
LexGT(v, o) == \E k \in 1..4 : v[k] > o[k] /\ \A j \in 1..(k - 1) : v[j] = o[j]
B2N(x) == IF x THEN 1 ELSE 0
LineOK(e) ==
  /\ B2N(e.h) + B2N(e.e) + B2N(e.l) = 1                              \* exactly one of higher / equal / lower
  /\ (e.h => ~e.hr) /\ (e.l => e.hr) /\ (e.e <=> e.a = e.b)          \* antisymmetric
  /\ e.h = LexGT(e.a, e.b)                                           \* it IS the lexicographic order (hence transitive)
  /\ (e.h \/ e.e) => ((e.gb[1] => e.ga[1]) /\ (e.gb[2] => e.ga[2]) /\ (e.ga[3] => e.gb[3]))   \* gates monotone
  /\ e.pa = e.a                                                      \* M.m.p-build-edition parses to its tuple
Init == i = 1 /\ bad = {}
Next == /\ i <= Len(Trace) /\ i' = i + 1
        /\ bad' = IF LineOK(Trace[i]) THEN bad ELSE bad \cup {<<Trace[i].a, Trace[i].b>>}
Spec == Init /\ [][Next]_<<i, bad>>
Some(S) == IF S = {} THEN <<>> ELSE CHOOSE x \in S : TRUE
Done == (i = Len(Trace) + 1) => PrintT(<<"VERDICT", Len(Trace), Cardinality(bad), Some(bad)>>)
=============================================================================
