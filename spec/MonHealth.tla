------------------------------ MODULE MonHealth ------------------------------
(* the monitor of HealthCheck.tla evaluated by TLC on the events recorded from the real health checker *)
EXTENDS HealthMon, Json
VARIABLES i, run, m, bad
Trace == ndJsonDeserialize("mon.ndjson")
MInit == i = 1 /\ run = 0 /\ m = MonInit /\ bad = {}
MNext == /\ i <= Len(Trace) /\ i' = i + 1
         /\ LET e == Trace[i] IN
            IF e.ev = "Reset" THEN run' = e.run /\ m' = MonInit /\ bad' = bad
            ELSE LET m2 == Apply(m, e) IN
                 /\ run' = run /\ m' = m2 /\ bad' = bad \cup {<<run, i, "C19", x>> : x \in (m2.viol \ m.viol)}
MSpec == MInit /\ [][MNext]_<<i, run, m, bad>>
Done == (i = Len(Trace) + 1) => PrintT(<<"VERDICT", Len(Trace), ToJson(bad)>>)
=============================================================================
