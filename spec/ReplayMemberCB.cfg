SPECIFICATION RSpec
CONSTANTS Inst = {1, 2, 3, 4} NVB = 8 K = 1 MaxEvents = 20 Quiet = FALSE Marking = FALSE Record = TRUE
INVARIANTS DumpSched C10
CHECK_DEADLOCK FALSE
