SPECIFICATION SimSpec
CONSTANTS
  NVB = 2
  Hist <- HistA
  FoUuid <- FoA
  Savers = {"p", "c"}
  MaxSaves = 4
  MaxCrash = 1
  MaxAcks = 4
  AutoReset = "earliest"
  FailSaves = TRUE
  Focus = TRUE
  Record = TRUE
  Bugs = {"F1","F7"}
  D = 40
INVARIANTS DumpSched
CHECK_DEADLOCK FALSE
