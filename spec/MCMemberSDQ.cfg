SPECIFICATION Spec
CONSTANTS Inst = {1, 2, 3} NVB = 8 P = 4 D = 2 MaxEvents = 3 Settle = 9 Marking = FALSE Record = FALSE
VIEW view
INVARIANTS C10 Agree
CHECK_DEADLOCK FALSE
