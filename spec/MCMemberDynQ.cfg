SPECIFICATION Spec
CONSTANTS Inst = {1, 2, 3} NVB = 8 MaxPuts = 4 Record = FALSE
VIEW view
INVARIANTS C10 Agree
CHECK_DEADLOCK FALSE
