SPECIFICATION Spec
CONSTANTS MaxSet = 2
INVARIANTS AfterFirst Idempotent Emit
CHECK_DEADLOCK FALSE
