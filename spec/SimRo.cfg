SPECIFICATION SimSpec
CONSTANTS
  NVB = 2
  InitLog <- HistA
  MaxSeq = 3
  Keys = {"user"}
  Kinds = {"mut", "sys", "adv"}
  OldEvents = FALSE
  BadEvents = FALSE
  FoUuid <- Fo10
  Savers = {"p", "c"}
  MaxSaves = 2
  MaxCrash = 1
  MaxAcks = 2
  MaxGen = 2
  MaxNotify = 0
  MaxEnds = 0
  MaxFail = 0
  AutoReset = "earliest"
  Finite = FALSE
  AutoCkpt = TRUE
  Infos <- NoInfos
  Info0 <- Info11
  EndCauses = {}
  Hold = FALSE
  AllowClose = TRUE
  Rollbacks = FALSE
  FailSaves = FALSE
  Focus = TRUE
  Record = TRUE
  ReadOnly = TRUE
  AckSplit = FALSE
  HoldCb = FALSE
  RM = FALSE
  Slots = 1
  RmUuids = {1, 2}
  RmMonotone = FALSE
  Scrapes = FALSE
  HookScrapes = FALSE
  Marking = FALSE
  WindAt = 30
  Gaps = {}
  Bugs = {}
  D = 44
INVARIANTS DumpSched
CHECK_DEADLOCK FALSE
