SPECIFICATION Spec
CONSTANTS MaxLen = 5
INVARIANTS Prop Emit
CHECK_DEADLOCK FALSE
