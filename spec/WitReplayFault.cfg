SPECIFICATION RSpec
CONSTANTS
  NVB = 2
  InitLog <- OldLog
  MaxSeq = 2
  Keys = {"user"}
  Kinds = {"mut"}
  OldEvents = FALSE
  BadEvents = FALSE
  FoUuid <- Fo10
  Savers = {"p"}
  MaxSaves = 5
  MaxCrash = 3
  MaxAcks = 5
  MaxGen = 5
  MaxNotify = 0
  MaxEnds = 0
  MaxFail = 5
  AutoReset = "earliest"
  Finite = FALSE
  AutoCkpt = FALSE
  Infos <- NoInfos
  Info0 <- Info11
  EndCauses = {}
  Hold = FALSE
  AllowClose = FALSE
  Rollbacks = FALSE
  FailSaves = FALSE
  Focus = TRUE
  Record = TRUE
  ReadOnly = FALSE
  AckSplit = FALSE
  HoldCb = FALSE
  RM = FALSE
  Slots = 1
  RmUuids = {1, 2}
  RmMonotone = FALSE
  Scrapes = FALSE
  HookScrapes = FALSE
  Marking = FALSE
  WindAt = 0
  Gaps = {}
  Bugs = {}
INVARIANTS DumpSched
CHECK_DEADLOCK FALSE
