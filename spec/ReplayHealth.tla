----------------------------- MODULE ReplayHealth -----------------------------
(* label sequences (labels.ndjson) run through HealthCheck.tla: checks they are behaviours, adds predictions *)
EXTENDS HealthCheck, Json
VARIABLES j, k
Scheds == ndJsonDeserialize("labels.ndjson")
RInit == Init /\ j \in 1..Len(Scheds) /\ k = 1
RNext == /\ k <= Len(Scheds[j]) /\ Step(Scheds[j][k]) /\ mon' = Fold(mon, emitv')
         /\ hist' = Append(hist, [l |-> Scheds[j][k], evs |-> emitv', post |-> Post'])
         /\ k' = k + 1 /\ j' = j
RSpec == RInit /\ [][RNext]_<<vars, j, k>>
Stuck == k <= Len(Scheds[j]) /\ ~ENABLED RNext
DumpSched == (k > Len(Scheds[j]) \/ Stuck) =>
               PrintT(<<"SCHED", ToJson([cfg |-> [NVB |-> 0], steps |-> hist, j |-> j, complete |-> k > Len(Scheds[j])])>>)
=============================================================================
