SPECIFICATION SimSpec
CONSTANTS
  NVB = 2
  InitLog <- EmptyLog
  MaxSeq = 2
  Keys = {"user"}
  Kinds = {"mut"}
  OldEvents = FALSE
  BadEvents = FALSE
  FoUuid <- Fo10
  Savers = {"p"}
  MaxSaves = 1
  MaxCrash = 0
  MaxAcks = 1
  MaxGen = 4
  MaxNotify = 3
  MaxEnds = 0
  MaxFail = 0
  AutoReset = "earliest"
  Finite = FALSE
  AutoCkpt = FALSE
  Infos <- Infos2
  Info0 <- Info11
  EndCauses = {"socket", "statechanged", "ok"}
  Hold = FALSE
  AllowClose = FALSE
  Rollbacks = FALSE
  FailSaves = FALSE
  Focus = FALSE
  Record = TRUE
  ReadOnly = FALSE
  AckSplit = FALSE
  HoldCb = TRUE
  RM = FALSE
  Slots = 1
  RmUuids = {1, 2}
  RmMonotone = FALSE
  Scrapes = FALSE
  HookScrapes = FALSE
  Marking = FALSE
  WindAt = 36
  Gaps = {}
  Bugs = {}
  D = 50
INVARIANTS DumpSched
CHECK_DEADLOCK FALSE
