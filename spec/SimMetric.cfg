SPECIFICATION SimSpec
CONSTANTS
  NVB = 2
  InitLog <- EmptyLog
  MaxSeq = 3
  Keys = {"user", "conn"}
  Kinds = {"mut", "del", "exp", "sys", "adv"}
  OldEvents = TRUE
  BadEvents = FALSE
  FoUuid <- Fo10
  Savers = {"p"}
  MaxSaves = 2
  MaxCrash = 0
  MaxAcks = 3
  MaxGen = 4
  MaxNotify = 2
  MaxEnds = 2
  MaxFail = 0
  AutoReset = "earliest"
  Finite = FALSE
  AutoCkpt = TRUE
  Infos <- Infos2
  Info0 <- Info11
  EndCauses = {"socket", "statechanged", "ok"}
  Hold = TRUE
  AllowClose = TRUE
  Rollbacks = FALSE
  FailSaves = FALSE
  Focus = FALSE
  Record = TRUE
  ReadOnly = FALSE
  AckSplit = FALSE
  HoldCb = FALSE
  RM = FALSE
  Slots = 1
  RmUuids = {1, 2}
  RmMonotone = FALSE
  Scrapes = TRUE
  HookScrapes = TRUE
  Marking = FALSE
  WindAt = 41
  Gaps = {}
  Bugs = {}
  D = 55
INVARIANTS DumpSched
CHECK_DEADLOCK FALSE
