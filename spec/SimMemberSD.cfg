SPECIFICATION SimSpec
CONSTANTS Inst = {1, 2, 3, 4} NVB = 8 P = 4 D = 2 MaxEvents = 7 Settle = 9 Marking = FALSE Record = TRUE Depth = 90
INVARIANTS DumpSched
CHECK_DEADLOCK FALSE
