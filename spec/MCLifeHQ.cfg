SPECIFICATION Spec
CONSTANTS
  NVB = 2
  InitLog <- EmptyLog
  MaxSeq = 1
  Keys = {"user"}
  Kinds = {"mut"}
  OldEvents = FALSE
  BadEvents = FALSE
  FoUuid <- Fo10
  Savers = {"p"}
  MaxSaves = 0
  MaxCrash = 0
  MaxAcks = 0
  MaxGen = 4
  MaxNotify = 2
  MaxEnds = 0
  MaxFail = 0
  AutoReset = "earliest"
  Finite = FALSE
  AutoCkpt = FALSE
  Infos <- Infos2
  Info0 <- Info11
  EndCauses = {"socket", "statechanged", "ok"}
  Hold = FALSE
  AllowClose = FALSE
  Rollbacks = FALSE
  FailSaves = FALSE
  Focus = FALSE
  Record = FALSE
  ReadOnly = FALSE
  AckSplit = FALSE
  HoldCb = TRUE
  RM = FALSE
  Slots = 1
  RmUuids = {1, 2}
  RmMonotone = FALSE
  Scrapes = FALSE
  HookScrapes = FALSE
  Marking = FALSE
  WindAt = 0
  Gaps = {}
  Bugs = {}
VIEW view
INVARIANTS C07 C16 C01 C02 C03 C04 C05 C06 C08 C11 C12 C13 C14 C15 StoreAgrees ReopenArmed
CHECK_DEADLOCK FALSE
