SPECIFICATION SimSpec
CONSTANTS Inst = {1, 2, 3, 4, 5, 6, 7, 8} NVB = 8 P = 4 D = 2 MaxEvents = 12 Settle = 9 Marking = FALSE Record = TRUE Depth = 160
INVARIANTS DumpSched
CHECK_DEADLOCK FALSE
