#!/usr/bin/env python3
"""Generates the TLC configuration files (and the one-line wrapper modules) of every Core-based
model-checking / simulation / replay front-end from one table, so that they cannot drift apart."""
import os
HERE = os.path.dirname(os.path.abspath(__file__))
ALL = "C07 C16 C01 C02 C03 C04 C05 C06 C08 C11 C12 C13 C14 C15 StoreAgrees ReopenArmed"
BASE = dict(
    NVB="2", InitLog="<- HistA", MaxSeq="3", Keys='{"user"}', Kinds='{"mut", "sys", "adv"}', OldEvents="FALSE",
    BadEvents="FALSE", FoUuid="<- Fo10", Savers='{"p"}', MaxSaves="2", MaxCrash="1", MaxAcks="2", MaxGen="2",
    MaxNotify="0", MaxEnds="0", MaxFail="0", AutoReset='"earliest"', Finite="FALSE", AutoCkpt="FALSE",
    Infos="<- NoInfos", Info0="<- Info11", EndCauses="{}", Hold="FALSE", AllowClose="FALSE", Rollbacks="FALSE",
    FailSaves="TRUE", Focus="TRUE", Record="FALSE", ReadOnly="FALSE", AckSplit="FALSE", HoldCb="FALSE", RM="FALSE", Slots="1", RmUuids="{1, 2}", RmMonotone="FALSE", Scrapes="FALSE", HookScrapes="FALSE", Marking="FALSE", WindAt="0", Gaps="{}", Bugs="{}")
DATA = dict(BASE)
GEN = dict(BASE, NVB="1", InitLog="<- EmptyLog", Kinds='{"mut", "del", "exp", "sys", "adv"}', Keys='{"user", "conn", "txn"}',
           OldEvents="TRUE", BadEvents="TRUE", MaxSaves="1", Rollbacks="TRUE", FailSaves="FALSE")
LIFE = dict(BASE, InitLog="<- EmptyLog", MaxSeq="1", Kinds='{"mut"}', MaxSaves="1", MaxAcks="1", MaxCrash="0", MaxNotify="2",
            MaxEnds="2", Infos="<- Infos2", EndCauses='{"socket", "statechanged", "ok"}', AllowClose="TRUE", AutoCkpt="TRUE", Focus="FALSE",
            MaxGen="4", FailSaves="FALSE")
FAULT = dict(BASE, InitLog="<- OldLog", MaxSeq="2", Kinds='{"mut"}', MaxSaves="1", MaxFail="2", MaxGen="3", FailSaves="FALSE")
GAPS = '{"CloseDuringReopen", "LateWait"}'

def mc(d, **kw):
    return ("Spec", dict(d, **kw), "VIEW view\nINVARIANTS " + ALL, "MCBase")
def simc(d, depth, **kw):
    return ("SimSpec", dict(d, Record="TRUE", D=str(depth), WindAt=str(depth - 14), **kw), "INVARIANTS DumpSched", "SimCore")
def wit(d, **kw):
    return ("Spec", dict(d, Marking="TRUE", Target='"@TARGET@"', DeathOK="@DEATHOK@", **kw), "VIEW view\nINVARIANTS WitnessInv", "WitCore")
def rep(d, **kw):
    return ("RSpec", dict(d, Record="TRUE", **kw), "INVARIANTS DumpSched", "ReplayCore")

CFGS = {
    # ---- data path / save protocol --------------------------------------------------------------------------
    "MCDataQ": mc(DATA, MaxAcks="1"),
    "MCDataQ2": mc(DATA, MaxSaves="1"),
    "MCData": mc(DATA, Savers='{"p", "c"}', MaxAcks="1"),
    "MCData2": mc(DATA),
    "MCDataF1": mc(DATA, Savers='{"p", "c"}', MaxSaves="3", MaxAcks="3", Bugs='{"F1"}'),   # expected to violate C05 (pre-fix model)
    "MCDataF7": mc(DATA, Bugs='{"F7"}'),                                                   # expected to violate C05 (pre-fix model)
    # an acknowledgement caught inside the consumer's TrackOffset (between the position store and the dirty mark) while saves go on
    "MCAckQ": mc(DATA, AckSplit="TRUE", MaxAcks="1", MaxSaves="2", MaxCrash="0", MaxGen="1"),
    "MCAck": mc(DATA, AckSplit="TRUE", Savers='{"p", "c"}', MaxAcks="1", MaxSaves="2", MaxCrash="0", MaxGen="1"),
    "SimAck": simc(DATA, 48, AckSplit="TRUE", Savers='{"p", "c"}', MaxSaves="4", MaxAcks="4"),
    "WitAck": wit(DATA, AckSplit="TRUE", MaxCrash="0", MaxSaves="2", MaxAcks="2", MaxGen="1", FailSaves="FALSE"),
    "SimData": simc(DATA, 48, Savers='{"p", "c"}', MaxSaves="4", MaxAcks="4"),
    "ReplayData": rep(DATA, Savers='{"p", "c"}', MaxSaves="10", MaxAcks="10", MaxCrash="3", MaxGen="4"),
    # ---- generated server events ----------------------------------------------------------------------------
    "MCGenQ": mc(GEN, MaxSeq="2"),
    "MCGen": mc(GEN),
    "SimGen": simc(GEN, 44, MaxSeq="4", MaxAcks="3", MaxSaves="2"),
    "SimGen2": simc(GEN, 44, NVB="2", MaxSeq="3", MaxAcks="3", MaxSaves="2", Savers='{"p", "c"}'),
    # ---- lifecycle ------------------------------------------------------------------------------------------
    "MCLifeQ": mc(LIFE, MaxNotify="2", MaxEnds="0", MaxSaves="0", MaxAcks="0"),
    "MCLifeQ2": mc(LIFE, MaxNotify="1", MaxEnds="2", MaxSaves="0", MaxAcks="1"),
    "MCLife": mc(LIFE, MaxNotify="1", MaxEnds="2", MaxSaves="0", MaxAcks="1"),
    # Close() while a save is in flight that then fails: the final save waits for the lock of a save that must put its marks back
    "MCLifeFQ": mc(LIFE, NVB="1", MaxNotify="0", MaxEnds="0", MaxSaves="1", MaxAcks="1", MaxSeq="2", FailSaves="TRUE"),
    "SimLifeF": simc(LIFE, 40, NVB="1", MaxNotify="0", MaxEnds="0", MaxSaves="2", MaxAcks="2", MaxSeq="2", FailSaves="TRUE"),
    "WitLifeF": wit(LIFE, NVB="1", MaxNotify="0", MaxEnds="0", MaxSaves="1", MaxAcks="1", MaxSeq="2", FailSaves="TRUE"),
    "WitReplayLifeF": rep(LIFE, NVB="1", MaxSeq="3", MaxSaves="5", MaxAcks="5", MaxNotify="5", MaxEnds="6", Hold="TRUE", FailSaves="TRUE"),
    # the handler of AfterRebalanceEnd takes time: a notification meanwhile starts the next rebalance, which blocks on the rebalance lock
    "MCLifeHQ": mc(LIFE, HoldCb="TRUE", MaxNotify="2", MaxEnds="0", MaxSaves="0", MaxAcks="0", AllowClose="FALSE", AutoCkpt="FALSE"),
    "SimLifeH": simc(LIFE, 50, HoldCb="TRUE", MaxSeq="2", MaxSaves="1", MaxAcks="1", MaxNotify="3", MaxEnds="0", AllowClose="FALSE", AutoCkpt="FALSE"),
    "WitLifeH": wit(LIFE, HoldCb="TRUE", MaxNotify="2", MaxEnds="0", MaxSaves="0", MaxAcks="0", Kinds="{}", AllowClose="FALSE", AutoCkpt="FALSE"),
    "WitReplayLifeH": rep(LIFE, HoldCb="TRUE", MaxSeq="3", MaxSaves="5", MaxAcks="5", MaxNotify="5", MaxEnds="6", Hold="TRUE"),
    "MCLifeF5": mc(LIFE, Bugs='{"F5"}', MaxEnds="0", MaxSaves="0", MaxAcks="0", AllowClose="FALSE"),   # expected to violate C11
    "MCLifeF2": mc(LIFE, Bugs='{"F2"}', MaxNotify="1", MaxEnds="0", MaxSaves="0", MaxAcks="0"),        # expected to violate C13
    "MCLifeGaps": mc(LIFE, Gaps=GAPS, MaxNotify="1", MaxSaves="0", MaxAcks="0"),                       # expected to violate (F6, F8)
    "SimLife": simc(LIFE, 55, MaxSeq="2", MaxSaves="2", MaxAcks="2", MaxNotify="3", MaxEnds="3"),
    "ReplayLife": rep(LIFE, MaxSeq="3", MaxSaves="5", MaxAcks="5", MaxNotify="5", MaxEnds="6"),
    "ReplayLifeGaps": rep(LIFE, MaxSeq="3", MaxSaves="5", MaxAcks="5", MaxNotify="5", MaxEnds="6", Gaps=GAPS),
    # ---- witness generation (bin/mkwitness substitutes @TARGET@)
    "WitData": wit(DATA, Savers='{"p", "c"}', MaxSaves="3", MaxAcks="3"),
    "WitData3": wit(DATA, Savers='{"p", "c"}', MaxCrash="0", MaxSaves="2", MaxAcks="1", MaxGen="1", FailSaves="FALSE"),
    "WitData4": wit(DATA, Savers='{"p", "c"}', MaxCrash="0", MaxSaves="2", MaxAcks="1", MaxGen="1"),
    "WitData2": wit(DATA, MaxCrash="0", MaxSaves="2", MaxAcks="2", MaxGen="1"),
    "WitGen": wit(GEN, MaxAcks="2", MaxSaves="1"),
    "WitLifeN": wit(LIFE, MaxNotify="2", MaxEnds="0", MaxSaves="0", MaxAcks="0", Kinds="{}", AllowClose="FALSE", AutoCkpt="FALSE"),
    "WitLifeC": wit(LIFE, MaxNotify="1", MaxEnds="0", MaxSaves="1", MaxAcks="1", Hold="TRUE"),
    "WitLifeC2": wit(LIFE, MaxNotify="0", MaxEnds="0", MaxSaves="1", MaxAcks="2", MaxSeq="2", NVB="1"),
    "WitLifeS": wit(LIFE, MaxNotify="1", MaxEnds="0", MaxSaves="0", MaxAcks="1", MaxSeq="1", AllowClose="FALSE", AutoCkpt="FALSE"),
    "WitLifeB": wit(LIFE, NVB="1", MaxNotify="0", MaxEnds="1", MaxSaves="0", MaxAcks="2", MaxSeq="3", AllowClose="FALSE", AutoCkpt="FALSE",
                    EndCauses='{"statechanged"}'),
    "WitLifeA": wit(LIFE, MaxNotify="1", MaxEnds="1", MaxSaves="0", MaxAcks="2", MaxSeq="2", AllowClose="FALSE", AutoCkpt="FALSE",
                    EndCauses='{"statechanged"}'),
    "WitLifeE": wit(LIFE, MaxNotify="0", MaxEnds="2", MaxSaves="0", MaxAcks="1", AllowClose="FALSE", AutoCkpt="FALSE"),
    "WitFault": wit(FAULT),
    "WitFaultLatest": wit(FAULT, AutoReset='"latest"'),
    "WitReplayFault": rep(FAULT, MaxFail="5", MaxSaves="5", MaxAcks="5", MaxCrash="3", MaxGen="5"),
    "WitReplayFaultLatest": rep(FAULT, MaxFail="5", MaxSaves="5", MaxAcks="5", MaxCrash="3", MaxGen="5", AutoReset='"latest"'),
    "WitReplayData": rep(DATA, AckSplit="TRUE", Savers='{"p", "c"}', MaxSaves="10", MaxAcks="10", MaxCrash="3", MaxGen="4"),
    "WitReplayGen": rep(GEN, MaxSeq="4", MaxSaves="10", MaxAcks="10", MaxCrash="3", MaxGen="4"),
    "WitReplayLife1": rep(LIFE, NVB="1", MaxSeq="3", MaxSaves="5", MaxAcks="5", MaxNotify="5", MaxEnds="6", Hold="TRUE"),
    "WitReplayLife": rep(LIFE, MaxSeq="3", MaxSaves="5", MaxAcks="5", MaxNotify="5", MaxEnds="6", Hold="TRUE"),
    # ---- start-up faults ------------------------------------------------------------------------------------
    # a fail-over while streaming: transient end, re-open answered ROLLBACK(r), history above r discarded, new snapshots
    "MCReopenQ": mc(GEN, MaxSeq="3", Kinds='{"mut"}', Keys='{"user"}', OldEvents="FALSE", BadEvents="FALSE", MaxEnds="2",
                    EndCauses='{"statechanged"}', MaxCrash="0", MaxSaves="0", MaxAcks="1", MaxGen="6"),
    "MCReopen": mc(GEN, MaxSeq="3", Kinds='{"mut", "adv"}', Keys='{"user"}', OldEvents="FALSE", BadEvents="FALSE", MaxEnds="2",
                   EndCauses='{"statechanged"}', MaxCrash="0", MaxSaves="0", MaxAcks="1", MaxGen="6"),
    "SimReopen": simc(GEN, 44, MaxSeq="4", Kinds='{"mut", "del", "adv"}', Keys='{"user"}', OldEvents="FALSE", BadEvents="FALSE", MaxEnds="3",
                      EndCauses='{"statechanged", "socket"}', MaxCrash="0", MaxSaves="1", MaxAcks="2", MaxGen="8"),
    "WitReopen": wit(GEN, MaxSeq="3", Kinds='{"mut"}', Keys='{"user"}', OldEvents="FALSE", BadEvents="FALSE", MaxEnds="1",
                     EndCauses='{"statechanged"}', MaxCrash="0", MaxSaves="0", MaxAcks="1", MaxGen="6"),
    "WitReplayReopen": rep(GEN, MaxSeq="4", MaxSaves="10", MaxAcks="10", MaxCrash="0", MaxGen="8", MaxEnds="6", EndCauses='{"statechanged", "socket"}'),
    "MCRoQ": mc(DATA, ReadOnly="TRUE", MaxAcks="1", MaxSaves="1", MaxGen="1", FailSaves="FALSE", AllowClose="TRUE", AutoCkpt="TRUE"),
    "MCRo": mc(DATA, ReadOnly="TRUE", MaxAcks="1", FailSaves="FALSE", AllowClose="TRUE", AutoCkpt="TRUE"),
    "SimRo": simc(DATA, 44, ReadOnly="TRUE", Savers='{"p", "c"}', FailSaves="FALSE", AllowClose="TRUE", AutoCkpt="TRUE"),
    "MCRmQ": mc(GEN, RM="TRUE", Slots="2", MaxSeq="2", Kinds='{"mut", "adv"}', Keys='{"user"}', OldEvents="FALSE", BadEvents="FALSE",
                Rollbacks="FALSE", MaxCrash="0", MaxSaves="0", MaxAcks="0", AllowClose="TRUE", Focus="TRUE"),
    "MCRm": mc(GEN, RM="TRUE", Slots="3", MaxSeq="2", Kinds='{"mut", "adv"}', Keys='{"user"}', OldEvents="FALSE", BadEvents="FALSE",
               Rollbacks="FALSE", MaxCrash="0", MaxSaves="0", MaxAcks="0", AllowClose="TRUE", Focus="TRUE"),
    "MCRm2": mc(GEN, RM="TRUE", Slots="2", MaxSeq="3", Kinds='{"mut", "sys", "adv"}', Keys='{"user"}', OldEvents="FALSE", BadEvents="FALSE",
                Rollbacks="FALSE", MaxCrash="0", MaxSaves="0", MaxAcks="1", AllowClose="TRUE", Focus="TRUE", RmUuids="{1}"),
    "SimRm": simc(GEN, 50, RM="TRUE", Slots="3", MaxSeq="3", NVB="2", Kinds='{"mut", "sys", "adv"}', Keys='{"user"}', OldEvents="FALSE",
                  BadEvents="FALSE", Rollbacks="FALSE", MaxCrash="0", MaxSaves="1", MaxAcks="2", AllowClose="TRUE", Focus="TRUE"),
    "SimRm2": simc(GEN, 44, RM="TRUE", Slots="2", RmUuids="{1}", MaxSeq="3", Kinds='{"mut", "del", "sys", "adv"}', Keys='{"user"}', OldEvents="FALSE",
                   BadEvents="FALSE", Rollbacks="FALSE", MaxCrash="0", MaxSaves="1", MaxAcks="2", AllowClose="TRUE", Focus="TRUE"),
    "SimRmM": simc(GEN, 50, RM="TRUE", RmMonotone="TRUE", Slots="3", MaxSeq="3", NVB="2", Kinds='{"mut", "sys", "adv"}', Keys='{"user"}', OldEvents="FALSE",
                   BadEvents="FALSE", Rollbacks="FALSE", MaxCrash="0", MaxSaves="1", MaxAcks="2", AllowClose="TRUE", Focus="TRUE"),
    "SimRm2M": simc(GEN, 44, RM="TRUE", RmMonotone="TRUE", Slots="2", RmUuids="{1}", MaxSeq="3", Kinds='{"mut", "del", "sys", "adv"}', Keys='{"user"}', OldEvents="FALSE",
                    BadEvents="FALSE", Rollbacks="FALSE", MaxCrash="0", MaxSaves="1", MaxAcks="2", AllowClose="TRUE", Focus="TRUE"),
    "WitReplayRmM": rep(GEN, RM="TRUE", RmMonotone="TRUE", Slots="2", MaxSeq="4", MaxSaves="10", MaxAcks="10", MaxCrash="0", MaxGen="4", AllowClose="TRUE", Rollbacks="FALSE"),
    "WitRm": wit(GEN, RM="TRUE", Slots="2", MaxSeq="2", Kinds='{"mut", "adv"}', Keys='{"user"}', OldEvents="FALSE", BadEvents="FALSE",
                 Rollbacks="FALSE", MaxCrash="0", MaxSaves="1", MaxAcks="0", AllowClose="TRUE", Focus="TRUE"),
    "WitReplayRm": rep(GEN, RM="TRUE", Slots="2", MaxSeq="4", MaxSaves="10", MaxAcks="10", MaxCrash="0", MaxGen="4", AllowClose="TRUE", Rollbacks="FALSE"),
    "MCMetricQ": mc(LIFE, Scrapes="TRUE", HookScrapes="TRUE", MaxNotify="1", MaxEnds="0", MaxSaves="0", MaxAcks="1", MaxSeq="1", Hold="TRUE", AllowClose="FALSE", AutoCkpt="FALSE"),
    "MCMetric": mc(LIFE, Scrapes="TRUE", HookScrapes="TRUE", MaxNotify="1", MaxEnds="0", MaxSaves="0", MaxAcks="1", MaxSeq="1", Hold="TRUE",
                   Kinds='{"mut", "del"}', Keys='{"user", "conn"}', AutoCkpt="FALSE"),
    "MCMetric2": mc(LIFE, Scrapes="TRUE", HookScrapes="TRUE", MaxNotify="0", MaxEnds="1", MaxSaves="0", MaxAcks="1", MaxSeq="1", Hold="TRUE", AutoCkpt="FALSE"),
    "SimMetric": simc(LIFE, 55, Scrapes="TRUE", HookScrapes="TRUE", MaxNotify="2", MaxEnds="2", MaxSaves="2", MaxAcks="3", MaxSeq="3", Hold="TRUE",
                      Kinds='{"mut", "del", "exp", "sys", "adv"}', Keys='{"user", "conn"}', OldEvents="TRUE"),
    "MCFaultQ": mc(FAULT, MaxFail="1"),
    "MCFault": mc(FAULT),
    # (the bucket's history ends with a system event and a seqno-advanced in vBucket 2: its high seqno is not that of a collection)
    "MCModeQ": mc(FAULT, InitLog="<- HistA", MaxSeq="3", Kinds='{"mut", "sys", "adv"}', MaxFail="0", Finite="TRUE", AutoReset='"latest"', MaxEnds="2", EndCauses='{"ok"}', AllowClose="TRUE"),
    "SimMode": simc(FAULT, 44, InitLog="<- HistA", MaxSeq="3", Kinds='{"mut", "sys", "adv"}', MaxFail="0", Finite="TRUE", AutoReset='"latest"', MaxEnds="2", EndCauses='{"ok"}', AllowClose="TRUE", MaxSaves="2"),
    "MCFaultLatestQ": mc(FAULT, AutoReset='"latest"', MaxFail="1"),
    "MCFaultLatest": mc(FAULT, AutoReset='"latest"'),
    "SimFault": simc(FAULT, 48, MaxFail="3"),
    "SimFaultLatest": simc(FAULT, 48, MaxFail="3", AutoReset='"latest"'),
}

for name, (spec, consts, tail, parent) in CFGS.items():
    lines = ["SPECIFICATION " + spec, "CONSTANTS"]
    for k, v in consts.items():
        lines.append("  %s %s" % (k, v) if v.startswith("<-") else "  %s = %s" % (k, v))
    lines += [tail, "CHECK_DEADLOCK FALSE", ""]
    open(os.path.join(HERE, name + ".cfg"), "w").write("\n".join(lines))
    bar = "-" * 30
    open(os.path.join(HERE, name + ".tla"), "w").write("%s MODULE %s %s\nEXTENDS %s\n%s\n" % (bar, name, bar, parent, "=" * 77))
print(len(CFGS), "configurations")
