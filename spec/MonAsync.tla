------------------------------ MODULE MonAsync ------------------------------
(* C20 judged on the events recorded from the real couchbase.AsyncOp driven through the wrapper pattern:
   Submit{ok}, Served{outcome}, Deadline, CallbackDone, Return{result}, Quiesced; and from the real wrappers of client.go /
   doc_op.go over real gocbcore agents against the simulated node (Submit, Served, Return, QuiescedWire) *)
EXTENDS Integers, Sequences, FiniteSets, TLC, Json
VARIABLES i, run, m, bad
Trace == ndJsonDeserialize("mon.ndjson")
MonInit == [sub |-> "none", served |-> "none", cbdone |-> FALSE, ret |-> "none", deadline |-> FALSE, cancel |-> FALSE, viol |-> {}]
V(x, c, msg) == IF c THEN x ELSE [x EXCEPT !.viol = @ \cup {msg}]
Apply(x, e) ==
  CASE e.ev = "Submit" -> [x EXCEPT !.sub = IF e.ok THEN "ok" ELSE "err"]
    [] e.ev = "Served" -> [x EXCEPT !.served = e.outcome]
    [] e.ev = "Deadline" -> [x EXCEPT !.deadline = TRUE]
    [] e.ev = "CallbackDone" -> [x EXCEPT !.cbdone = TRUE]
    [] e.ev = "Cancel" -> [x EXCEPT !.cancel = TRUE]
    [] e.ev = "Return" ->
         V(V([x EXCEPT !.ret = e.result],
             e.result = "ok" => x.served = "ok", "success reported for an operation the server did not confirm"),
           e.result = "fail" => x.served = "fail", "a failure was reported that is not the server's outcome")
    [] e.ev = "Quiesced" ->
         V(V(V(x, x.sub = "none" \/ x.ret # "none", "the call did not return"),
             x.served = "none" \/ x.cbdone, "the completion callback blocked"),
           ~(x.ret = "timeout" /\ x.served \in {"none", "cancel"}) \/ x.cancel,
           "the deadline passed on a silent server but the pending operation was not cancelled")
    \* a real wrapper over a real agent against the simulated node: the call has returned (by its own deadline at the latest)
    [] e.ev = "QuiescedWire" -> V(x, x.ret # "none", "the call did not return by its deadline")
    [] OTHER -> x
MInit == i = 1 /\ run = 0 /\ m = MonInit /\ bad = {}
MNext == /\ i <= Len(Trace) /\ i' = i + 1
         /\ LET e == Trace[i] IN
            IF e.ev = "Reset" THEN run' = e.run /\ m' = MonInit /\ bad' = bad
            ELSE LET m2 == Apply(m, e) IN
                 /\ run' = run /\ m' = m2 /\ bad' = bad \cup {<<run, i, "C20", x>> : x \in (m2.viol \ m.viol)}
MSpec == MInit /\ [][MNext]_<<i, run, m, bad>>
Done == (i = Len(Trace) + 1) => PrintT(<<"VERDICT", Len(Trace), ToJson(bad)>>)
=============================================================================
