SPECIFICATION Spec
CONSTANTS MaxSeq = 2 MaxLog = 2
INVARIANTS Prop Emit
CHECK_DEADLOCK FALSE
