SPECIFICATION Spec
CONSTANTS MaxSeq = 3 MaxLog = 3
INVARIANTS Prop Emit
CHECK_DEADLOCK FALSE
