SPECIFICATION Spec
CONSTANTS Majors = {4, 5, 6, 7, 8} Minors = {0, 1, 2, 4, 5, 6} Patches = {0, 1, 2} Builds = {0, 1}
INVARIANTS Trichotomy Antisymmetry Transitivity IsLexOrder GatesMonotone RoundTrip Emit
CHECK_DEADLOCK FALSE
