SPECIFICATION Spec
CONSTANTS Majors = {4, 5, 6, 7, 8} Minors = {0, 1, 2, 4, 5, 6, 100} Patches = {0, 1, 2, 100} Builds = {0, 1, 10080}
INVARIANTS Trichotomy Antisymmetry Transitivity IsLexOrder GatesMonotone RoundTrip Emit
CHECK_DEADLOCK FALSE
