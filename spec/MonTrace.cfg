SPECIFICATION Spec
CONSTANTS NVB = 2
INVARIANT Done
CHECK_DEADLOCK FALSE
