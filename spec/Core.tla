-------------------------------- MODULE Core --------------------------------
(***************************************************************************)
(* Implementation-shaped specification of go-dcp's stream layer            *)
(*   dcp.go                  Start / close (shutdown order)                *)
(*   stream/stream.go        offsets, dirty set, flag, Open / Close /      *)
(*                           Rebalance / rebalance / wait / listenEnd      *)
(*   stream/checkpoint.go    Load, multi-step Save                         *)
(*   couchbase/observer.go   per-vBucket observer                          *)
(*                                                                         *)
(* One action = one thread of the real code running from the gate it is    *)
(* parked at to its next gate.  A gate is a point where the test rig can   *)
(* hold the real code: a call into the metadata store / the client / the   *)
(* consumer, or a vhook point (save.prelock, rb.prelock, wait.close,       *)
(* wait.end).  Every action has a label; Step(l) dispatches on it, so a    *)
(* TLC behaviour is a schedule that harness/drivers/core.go executes on    *)
(* the real code.  Every action also states the observable events the real *)
(* code emits while executing it (emitv) - they drive the property         *)
(* monitors of Props.tla.                                                  *)
(***************************************************************************)
EXTENDS Props

CONSTANTS
  InitLog,     \* [VB -> Seq(wire event)] : what the server already holds when the first process starts
  MaxSeq,      \* server sequence numbers are 1..MaxSeq
  Keys,        \* key classes the server uses for document events, subset of {"user","conn","txn"}
  Kinds,       \* document / system kinds the server generates, subset of {"mut","del","exp","sys","adv"}
  OldEvents,   \* BOOLEAN: the server also sends events whose CAS time is before skipUntil
  BadEvents,   \* BOOLEAN: the server may send an event outside its announced snapshot
  FoUuid,      \* [VB -> Nat] : vbUUID the server answers stream requests with
  Savers,      \* driver threads that call Save()/Commit(), e.g. {"p","c"}
  MaxSaves, MaxCrash, MaxAcks, MaxGen, MaxNotify, MaxEnds, MaxFail,
  AutoReset,   \* "earliest" | "latest"
  Finite,      \* BOOLEAN: dcp.mode finite
  AutoCkpt,    \* BOOLEAN: checkpoint.type auto (final save in close)
  Infos,       \* membership values <<member, total>> the environment may publish
  Info0,       \* membership in effect at start
  EndCauses,   \* causes the server may end a stream with (besides "closed" after CloseStream)
  Hold,        \* BOOLEAN: the consumer may block inside ConsumeEvent
  AllowClose,  \* BOOLEAN: Close() may be called
  Rollbacks,   \* BOOLEAN: the server may answer a stream request with a rollback
  FailSaves,   \* BOOLEAN: the metadata store may reject a save
  Focus,       \* BOOLEAN: while a session is being opened or closed nothing else is scheduled
  Record,      \* BOOLEAN: hist carries predictions (events, projected state) besides the labels
  HoldCb,      \* BOOLEAN: the user's handler of AfterRebalanceEnd takes time (it is held inside the callback): CbRet; a notification
               \* that arrives meanwhile starts the next rebalance, which blocks on the rebalance lock (RbWait, RbAcquire)
  AckSplit,    \* BOOLEAN: an acknowledgement may be caught inside the consumer's TrackOffset (user code, called by setOffset between the
               \* position store and the dirty mark): AckBegin / AckMark instead of the atomic Ack
  ReadOnly,    \* BOOLEAN: metadata.readOnly - the backend is wrapped: Save and Clear are no-ops, Load passes through
  RM,          \* BOOLEAN: rollback mitigation gates deliveries on the persisted seqno of every copy of the vBucket
  Slots,       \* number of copies (active + replicas) listed in the cluster map
  RmUuids,     \* vbUUIDs a copy may report
  RmMonotone,  \* BOOLEAN: under one vbUUID a copy's persisted seqno never decreases (as on a real cluster; required when the
               \* real polling rollbackMitigation is driven: two changes seen in one polling round are then order-independent)
  Scrapes,     \* BOOLEAN: the metrics endpoint is scraped
  HookScrapes, \* BOOLEAN: ... also from inside every lifecycle callback of the user's event handler
  Marking,     \* BOOLEAN: record in marks the interesting situations a behaviour goes through (bin/mkwitness)
  WindAt,      \* the wind-down may start once the schedule has this many steps (0: any time)
  Gaps,        \* subset of {"CloseDuringReopen", "LateWait"}: known findings whose interleavings are explored (see known_findings.json);
               \* without the name the model does not let dcp.close overlap the re-open of a rebalance
  Bugs         \* subset of {"F1","F7","F2","F5"}: model the code as it was BEFORE the corresponding fix: commit

VARIABLES
  \* ---- environment
  up, slog, wire, store, info, cnt,
  fo,          \* [VB -> Nat] : vbUUID of the server's current history branch (a fail-over starts a new one)
  \* ---- observers (per vb)
  osnap, ouuid, ocatch, oclosed, oendclosed, ocnt,
  \* ---- stream
  offs, dirty, flag, rng, open, obsNil, active, balancing, cwc, finClose, finEnd, rebalances, stopped,
  ctxs,
  \* ---- channels, wait goroutines, timers, locks
  tokC, tokE, waits, wpark, timers, cur, rlock, slock, cgen,
  \* ---- threads
  mpc, dcwc, opener, opc, opened, live, foleft, lpart, clo, spc, sv, rpc, dpc, reop,
  thr, rtab, dwait, rmon,   \* rollback mitigation: threshold per vb (observer.persistSeqNo), table of copies per vb,
                            \* the event a dispatch goroutine is waiting with, gate in force
  scr, sinfo,  \* the scrape thread ("idle" | "wait": inside Collect, parked in GetVBucketSeqNos); membership read by the last Open
  \* ---- wind-down: the environment stops producing work, pending work completes, a last save flushes
  wind,
  \* ---- (witness generation only) interesting situations this behaviour went through
  marks,
  \* ---- observable events emitted by the last step; monitor; schedule
  emitv, obs, hist

envVars  == <<up, slog, wire, store, info, cnt, fo>>
obsvVars == <<osnap, ouuid, ocatch, oclosed, oendclosed, ocnt>>
strVars  == <<offs, dirty, flag, rng, open, obsNil, active, balancing, cwc, finClose, finEnd, rebalances, stopped, ctxs>>
synVars  == <<tokC, tokE, waits, wpark, timers, cur, rlock, slock, cgen>>
rmVars   == <<thr, rtab, dwait, rmon>>
thrVars  == <<mpc, dcwc, opener, opc, opened, live, foleft, lpart, clo, spc, sv, rpc, dpc, reop, scr, sinfo, wind, rmVars>>
vars     == <<envVars, obsvVars, strVars, synVars, thrVars, marks, emitv, obs, hist>>
view     == <<envVars, obsvVars, strVars, synVars, thrVars, marks, obs>>

NoSnap == <<0 - 1, 0 - 1>>
Ev(k, q, s, e, key, old) == [k |-> k, q |-> q, s |-> s, e |-> e, key |-> key, old |-> old]
RbThreads == {"bus", "api", "tmr"}
SaveThreads == Savers \cup {"main"}

HighOf(v) == MaxOr({slog[v][i].q : i \in DOMAIN slog[v]}, 0)

\* last snapshot the server announced in its log: <<s, e>> (NoSnap if none)
RECURSIVE LastSnap(_)
LastSnap(h) == IF h = <<>> THEN NoSnap
               ELSE LET x == h[Len(h)] IN
                    IF x.k = "mark" THEN <<x.s, x.e>>
                    ELSE IF x.k = "adv" THEN <<x.q, x.q>>
                    ELSE LastSnap(SubSeq(h, 1, Len(h) - 1))

\* what the server streams for a request that resumes at seqno q: everything above q, each surviving
\* event preceded by (a copy of) the marker of its snapshot; a snapshot that is still open (its end lies
\* above everything sent so far) is announced again on the new stream
RECURSIVE WireFromR(_, _, _, _)
WireFromR(h, q, pendingMark, hi) ==
  IF h = <<>> THEN (IF pendingMark # <<>> /\ pendingMark[1].e > hi THEN pendingMark ELSE <<>>)
  ELSE LET x == Head(h) IN
       IF x.k = "mark" THEN WireFromR(Tail(h), q, <<x>>, hi)
       ELSE IF x.q <= q THEN WireFromR(Tail(h), q, pendingMark, hi)
       ELSE pendingMark \o <<x>> \o WireFromR(Tail(h), q, <<>>, hi)
WireFrom(h, q, pm) == WireFromR(h, q, pm, MaxOr({h[i].q : i \in DOMAIN h}, 0))

\* new events the server may append to the history of v
Gen(v) ==
  LET hi == HighOf(v)
      sn == LastSnap(slog[v])
      lastIsMark == slog[v] # <<>> /\ slog[v][Len(slog[v])].k = "mark"
      inside == sn # NoSnap /\ hi < sn[2]
      docs(q) == {Ev(k, q, 0, 0, key, old) : k \in Kinds \cap DocKinds, key \in Keys,
                                              old \in (IF OldEvents THEN BOOLEAN ELSE {FALSE})}
      syss(q) == {Ev("sys", q, 0, 0, "", FALSE) : k \in Kinds \cap {"sys"}}
  IN
  IF hi >= MaxSeq THEN {}
  ELSE (IF inside THEN docs(hi + 1) \cup syss(hi + 1) ELSE {})
       \cup (IF ~inside /\ ~lastIsMark
             THEN {Ev("mark", 0, hi + 1, e, "", FALSE) : e \in (hi + 1)..(IF hi + 2 <= MaxSeq THEN hi + 2 ELSE hi + 1)}
             ELSE {})
       \cup (IF "adv" \in Kinds /\ ~lastIsMark THEN {Ev("adv", hi + 1, 0, 0, "", FALSE)} ELSE {})
       \cup (IF BadEvents /\ ~inside /\ ~lastIsMark /\ sn # NoSnap THEN {Ev("mut", hi + 1, 0, 0, "user", FALSE)} ELSE {})

\* helpers.ChunkSlice + VBucketDiscovery.Get: contiguous range of member m of t over 1..NVB
ChunkLo(t, m) == LET q == NVB \div t  r == NVB % t IN (m - 1) * q + (IF m - 1 < r THEN m - 1 ELSE r) + 1
ChunkHi(t, m) == LET q == NVB \div t  r == NVB % t IN m * q + (IF m < r THEN m ELSE r)
RangeOf(i) == <<ChunkLo(i[2], i[1]), ChunkHi(i[2], i[1])>>
InRange(v) == rng[1] <= v /\ v <= rng[2]
RangeSet == {v \in VB : InRange(v)}
RangeOfSet(i) == {v \in VB : RangeOf(i)[1] <= v /\ v <= RangeOf(i)[2]}

\* known finding F8: dcp.close and the re-open of a rebalance (timer goroutine) are not coordinated
GapReopen == "CloseDuringReopen" \in Gaps
\* known finding F6: a wait goroutine that received the token of a rebalance's Close but is scheduled only after
\* that rebalance has re-opened the stream reads balancing = false and stops the client; without the name the
\* model lets a parked wait goroutine finish before the re-open timer fires
GapLateWait == "LateWait" \in Gaps
-----------------------------------------------------------------------------
NoSlot == [uuid |-> 0, seq |-> 0, absent |-> FALSE]
NoEvent == Ev("none", 0, 0, 0, "", FALSE)
GateSeq(x) == IF x.k = "mark" THEN x.s ELSE x.q
GateReady == \E v \in VB : dwait[v] # NoEvent /\ (GateSeq(dwait[v]) <= thr[v] \/ oclosed[v])
SaverInit == [dump |-> [v \in VB |-> NoOff], ddirty |-> {}, wr |-> {}, gen |-> 0,
              dlive |-> TRUE, dsnapm |-> {}, olive |-> TRUE, osnapm |-> [v \in VB |-> NoOff]]
CntInit == [crash |-> 0, saves |-> 0, acks |-> 0, notify |-> 0, ends |-> 0, fail |-> 0]
NoClose == [on |-> FALSE, who |-> "none", left |-> {}]

\* Save captures the map POINTERS (GetOffsets) before it uses them: savers between that read and their dump keep
\* the old maps when the stream installs new ones (UnmarkDirtyOffsets, Close, Load)
Holders == {u \in SaveThreads : spc[u] = (IF "F1" \in Bugs THEN "want" ELSE "take")}
Frozen(doD, doO) ==
  [u \in SaveThreads |->
     IF u \in Holders
     THEN [sv[u] EXCEPT !.dlive = IF doD THEN FALSE ELSE @, !.dsnapm = IF doD /\ sv[u].dlive THEN dirty ELSE @,
                        !.olive = IF doO THEN FALSE ELSE @, !.osnapm = IF doO /\ sv[u].olive THEN offs ELSE @]
     ELSE sv[u]]

Init ==
  /\ up = FALSE /\ slog = InitLog /\ wire = [v \in VB |-> <<>>] /\ store = [v \in VB |-> NoOff]
  /\ info = Info0 /\ cnt = CntInit /\ fo = FoUuid
  /\ osnap = [v \in VB |-> NoSnap] /\ ouuid = [v \in VB |-> 0] /\ ocatch = [v \in VB |-> 0 - 1]
  /\ oclosed = [v \in VB |-> FALSE] /\ oendclosed = [v \in VB |-> FALSE] /\ ocnt = [v \in VB |-> <<0, 0, 0>>]
  /\ offs = [v \in VB |-> NoOff] /\ dirty = {} /\ flag = FALSE /\ rng = <<1, 0>>
  /\ open = FALSE /\ obsNil = TRUE /\ active = 0 /\ balancing = FALSE /\ cwc = FALSE
  /\ finClose = FALSE /\ finEnd = FALSE /\ rebalances = 0 /\ stopped = FALSE /\ ctxs = <<>>
  /\ tokC = 0 /\ tokE = 0 /\ waits = 0 /\ wpark = <<>> /\ timers = <<>> /\ cur = 0
  /\ rlock = FALSE /\ slock = {} /\ cgen = 0
  /\ mpc = "off" /\ dcwc = FALSE /\ opener = "none" /\ opc = "none" /\ opened = {} /\ live = {} /\ foleft = 0 /\ lpart = FALSE /\ scr = "idle" /\ sinfo = Info0
  /\ thr = [v \in VB |-> 0] /\ rtab = [v \in VB |-> [i \in 1..Slots |-> NoSlot]] /\ dwait = [v \in VB |-> NoEvent] /\ rmon = FALSE
  /\ clo = NoClose
  /\ spc = [t \in SaveThreads |-> "idle"] /\ sv = [t \in SaveThreads |-> SaverInit]
  /\ rpc = [t \in RbThreads |-> "idle"] /\ dpc = [v \in VB |-> "idle"] /\ reop = {}
  /\ wind = "no" /\ marks = {}
  /\ emitv = <<>> /\ obs = ObsInit /\ hist = <<>>

\* a user hook may itself scrape the metrics endpoint (HookScrapes): every lifecycle callback is then followed by the
\* report of that scrape (it returned, it did not crash)
RECURSIVE WithHooks(_)
WithHooks(es) == IF es = <<>> THEN <<>>
                 ELSE IF Head(es).ev = "Callback" THEN <<Head(es), [ev |-> "HookScrape", name |-> Head(es).name, ok |-> TRUE]>> \o WithHooks(Tail(es))
                 ELSE <<Head(es)>> \o WithHooks(Tail(es))
Emit(es) == emitv' = IF HookScrapes THEN WithHooks(es) ELSE es
CB(n) == [ev |-> "Callback", name |-> n]

\* nothing but the session being opened / closed is scheduled (prunes interleavings, see DESIGN 5)
\* the environment still produces work (in simulation only during the first WindAt steps of a behaviour)
EnvOK == wind = "no" /\ (WindAt = 0 \/ Len(hist) < WindAt)
FocusBusy == Focus /\ (opc # "none" \/ clo.on)
\* a wait goroutine that received its token runs before anything else happens (unless known finding F6 is explored)
Prompt0 == "LateWait" \in Gaps \/ wpark = <<>>
\* a thread blocked in saveLock.Lock() takes the lock the moment it is released, before anything else happens
LockHandoff == \E t \in SaveThreads : spc[t] = "blocked" /\ sv[t].gen \notin slock
\* ... and so does a Rebalance() blocked in rebalanceLock.Lock()
RbHandoff == \E t \in RbThreads : rpc[t] = "blocked" /\ ~rlock
Prompt == Prompt0 /\ ~LockHandoff /\ ~GateReady /\ ~RbHandoff
Busy == FocusBusy \/ ~Prompt

Die(es) == /\ up' = FALSE /\ mpc' = "off" /\ Emit(es \o <<[ev |-> "Died"]>>)

-----------------------------------------------------------------------------
(* tokens and wait goroutines (stream.go wait l.401-412, Close l.447-449, listenEnd l.215-218)       *)
(* A put hands the token to a wait goroutine blocked in select, which then parks at vhook            *)
(* wait.close / wait.end; with no waiter the token stays in the 1-buffered channel.                  *)
Put(kind, tC, tE, w, wp) ==   \* returns <<tokC', tokE', waits', wpark', blocked>>
  IF w > 0 THEN <<tC, tE, w - 1, Append(wp, kind), FALSE>>
  ELSE IF kind = "close" THEN (IF tC = 0 THEN <<1, tE, w, wp, FALSE>> ELSE <<tC, tE, w, wp, TRUE>>)
  ELSE (IF tE = 0 THEN <<tC, 1, w, wp, FALSE>> ELSE <<tC, tE, w, wp, TRUE>>)
\* a new wait goroutine starts: it takes a buffered token at once if there is one (close first)
Spawn(tC, tE, w, wp) ==
  IF tC = 1 THEN <<0, tE, w, Append(wp, "close")>>
  ELSE IF tE = 1 THEN <<tC, 0, w, Append(wp, "end")>>
  ELSE <<tC, tE, w + 1, wp>>

-----------------------------------------------------------------------------
(* stream.Open (l.222-272) + checkpoint.Load (l.116-200), run by the main thread (dcp.Start) or by   *)
(* the timer goroutine (stream.rebalance)                                                            *)

ObsReset ==
  /\ osnap' = [v \in VB |-> NoSnap] /\ ouuid' = [v \in VB |-> 0] /\ ocatch' = [v \in VB |-> 0 - 1]
  /\ oclosed' = [v \in VB |-> FALSE] /\ oendclosed' = [v \in VB |-> FALSE] /\ ocnt' = [v \in VB |-> <<0, 0, 0>>]

\* first part of Open, up to the metadata.Load gate; who = "main" | "timer"
OpenBeginEvs == <<CB("BeforeStreamStart"), [ev |-> "Load", vbs |-> SortedSeq(RangeOfSet(info))]>>
OpenBegin(who) ==
  /\ opener' = who /\ opc' = "load" /\ opened' = {}
  /\ finClose' = FALSE /\ finEnd' = FALSE
  /\ rng' = RangeOf(info) /\ active' = Cardinality(RangeOfSet(info))
  /\ cgen' = cgen + 1 /\ sinfo' = info

\* Boot: the process starts; dcp.Start runs into stream.Open up to metadata.Load
Boot ==
  /\ ~up /\ mpc = "off" /\ cgen < MaxGen /\ EnvOK
  /\ UNCHANGED wind
  /\ up' = TRUE /\ mpc' = "starting" /\ dcwc' = FALSE
  /\ OpenBegin("main")
  /\ offs' = [v \in VB |-> NoOff] /\ dirty' = {} /\ flag' = FALSE /\ ctxs' = <<>>
  /\ open' = FALSE /\ obsNil' = TRUE /\ balancing' = FALSE /\ cwc' = FALSE /\ rebalances' = 0 /\ stopped' = FALSE
  /\ ObsReset
  /\ tokC' = 0 /\ tokE' = 0 /\ waits' = 0 /\ wpark' = <<>> /\ timers' = <<>> /\ cur' = 0
  /\ rlock' = FALSE /\ slock' = {}
  /\ foleft' = 0 /\ lpart' = FALSE /\ clo' = NoClose /\ live' = {}
  /\ spc' = [t \in SaveThreads |-> "idle"] /\ sv' = [t \in SaveThreads |-> SaverInit]
  /\ rpc' = [t \in RbThreads |-> "idle"] /\ dpc' = [v \in VB |-> "idle"] /\ reop' = {} /\ scr' = "idle"
  /\ thr' = [v \in VB |-> 0] /\ rtab' = [v \in VB |-> [i \in 1..Slots |-> NoSlot]] /\ dwait' = [v \in VB |-> NoEvent] /\ rmon' = FALSE
  /\ wire' = [v \in VB |-> <<>>]
  /\ Emit(<<[ev |-> "Boot", auto |-> AutoCkpt, finite |-> Finite, member |-> info[1], total |-> info[2], readonly |-> ReadOnly]>> \o OpenBeginEvs)
  /\ UNCHANGED <<slog, fo, store, info, cnt>>

\* metadata.Load returns; runs to the GetVBucketSeqNos gate; failure => panic in Load
LoadRet(ok, part) ==
  /\ UNCHANGED wind
  /\ up /\ opc = "load" /\ Prompt
  /\ (~ok => cnt.fail < MaxFail /\ EnvOK)
  /\ (part => ok /\ MaxFail > 0 /\ EnvOK)      \* a file-like backend: returns only the vBuckets it has a document for
  /\ lpart' = part
  /\ UNCHANGED <<slog, fo, wire, store, info, obsvVars, strVars, synVars, dcwc, opener, opened, live, foleft, clo, spc, sv, rpc, dpc, reop, rmVars, scr, sinfo>>
  /\ IF ok THEN /\ opc' = "seqnos" /\ Emit(<<[ev |-> "SeqNosReq"]>>) /\ UNCHANGED <<up, mpc, cnt>>
     ELSE /\ opc' = "none" /\ cnt' = [cnt EXCEPT !.fail = @ + 1] /\ Die(<<[ev |-> "Fail", what |-> "Load"]>>)

Exists == \E w \in RangeSet : store[w] # NoOff                 \* fake backend: "exist" of metadata.Load
LatestBranch == ~Exists /\ AutoReset = "latest"
EndOf(v) == IF Finite THEN HighOf(v) ELSE MAXSEQ                \* offset.InitializeLatestSeqNo
LoadedOff(v) ==
  IF LatestBranch THEN Off(fo[v], HighOf(v), HighOf(v), HighOf(v))
  ELSE IF store[v] = NoOff THEN ZeroOff ELSE store[v]
\* the backend returned documents for some, not all, assigned vBuckets: openStream of a missing one fails => panic
PartialLoad == lpart /\ Exists /\ \E v \in RangeSet : store[v] = NoOff
Ahead == ~LatestBranch /\ \E v \in RangeSet : store[v] # NoOff /\ store[v].seq > HighOf(v)

\* observers are created and one goroutine per vb reaches client.OpenStream (l.251-263)
SeqNosEvS(ok, scrape) == [ev |-> "SeqNos", ok |-> ok, high |-> [v \in VB |-> HighOf(v)], latest |-> AutoReset = "latest",
                           partial |-> lpart, scrape |-> scrape]
SeqNosEv(ok) == SeqNosEvS(ok, FALSE)
StartOpening(pre) ==
  /\ opc' = "opening"
  /\ ObsReset /\ obsNil' = FALSE
  /\ live' = {}      \* streams of an earlier session deliver to their own (closed) observers: no longer modelled
  /\ dpc' = [v \in VB |-> IF dpc[v] = "idle" THEN "idle" ELSE "stale"]    \* a delivery still held by the consumer belongs to an old observer
  /\ Emit(pre \o [i \in 1..Cardinality(RangeSet) |->
             LET v == rng[1] + i - 1 IN [ev |-> "OpenReq", vb |-> v, off |-> offs'[v], end |-> EndOf(v)]])

\* GetVBucketSeqNos returns; offsets are built
SeqNosRet(ok) ==
  /\ UNCHANGED wind
  /\ UNCHANGED lpart
  /\ up /\ opc = "seqnos" /\ Prompt
  /\ (~ok => cnt.fail < MaxFail /\ EnvOK)
  /\ UNCHANGED <<slog, fo, wire, store, info, rng, open, active, balancing, cwc, finClose, finEnd, rebalances, stopped,
                 ctxs, synVars, dcwc, opener, opened, clo, spc, rpc, reop, rmVars, scr, sinfo>>
  /\ IF ~ok THEN /\ opc' = "none" /\ cnt' = [cnt EXCEPT !.fail = @ + 1] /\ Die(<<SeqNosEv(FALSE)>>)
                 /\ UNCHANGED <<obsvVars, offs, dirty, flag, obsNil, foleft, lpart, live, sv, dpc>>
     ELSE IF Ahead \/ PartialLoad                      \* checkpoint beyond the high seqno / missing checkpoint entry: panic
     THEN /\ opc' = "none" /\ Die(<<SeqNosEv(TRUE)>>) /\ UNCHANGED <<cnt, obsvVars, offs, dirty, flag, obsNil, foleft, lpart, live, sv, dpc>>
     ELSE /\ UNCHANGED <<up, mpc, cnt>>
          /\ IF LatestBranch          \* the maps are installed only when Load returns, after the failover-log queries
             THEN /\ opc' = "folog" /\ foleft' = Cardinality(RangeSet) /\ Emit(<<SeqNosEv(TRUE)>>)
                  /\ UNCHANGED <<obsvVars, obsNil, live, offs, dirty, flag, sv, dpc>>
             ELSE /\ offs' = [v \in VB |-> IF InRange(v) THEN LoadedOff(v) ELSE NoOff]
                  /\ dirty' = {} /\ flag' = FALSE /\ sv' = Frozen(TRUE, TRUE)
                  /\ StartOpening(<<SeqNosEv(TRUE)>>) /\ UNCHANGED foleft

\* GetVBucketSeqNos answers without an entry for the assigned vBucket m (no node reported it): Load reads the missing number as 0
\* (checkpoint.go l.180: the map lookup's zero value), so a checkpoint of m above 0 lies beyond it: panic. (earliest / infinite only)
Seen(v, m) == IF v = m THEN 0 ELSE HighOf(v)
AheadM(m) == \E v \in RangeSet : store[v] # NoOff /\ store[v].seq > Seen(v, m)
SeqNosEvM(m) == [SeqNosEv(TRUE) EXCEPT !.high = [v \in VB |-> Seen(v, m)]]
SeqNosRetMiss(m) ==
  /\ UNCHANGED wind
  /\ UNCHANGED lpart
  /\ up /\ opc = "seqnos" /\ Prompt /\ m \in RangeSet /\ ~LatestBranch /\ ~Finite
  /\ cnt.fail = 0 /\ MaxFail > 0 /\ EnvOK /\ cnt' = [cnt EXCEPT !.fail = MaxFail]     \* (the only injected fault of the behaviour)
  /\ UNCHANGED <<slog, fo, wire, store, info, rng, open, active, balancing, cwc, finClose, finEnd, rebalances, stopped,
                 ctxs, synVars, dcwc, opener, opened, clo, spc, rpc, reop, rmVars, scr, sinfo>>
  /\ IF AheadM(m) \/ PartialLoad
     THEN /\ opc' = "none" /\ up' = FALSE /\ mpc' = "off" /\ Emit(<<SeqNosEvM(m), [ev |-> "Died"]>>)
          /\ UNCHANGED <<obsvVars, offs, dirty, flag, obsNil, foleft, live, sv, dpc>>
     ELSE /\ UNCHANGED <<up, mpc>>
          /\ offs' = [v \in VB |-> IF InRange(v) THEN LoadedOff(v) ELSE NoOff]
          /\ dirty' = {} /\ flag' = FALSE /\ sv' = Frozen(TRUE, TRUE)
          /\ StartOpening(<<SeqNosEvM(m)>>) /\ UNCHANGED foleft

\* GetFailOverLogs of one more vb returns (latest branch only; sequential, l.141-168)
FoLogRet(ok) ==
  /\ UNCHANGED wind
  /\ UNCHANGED lpart
  /\ up /\ opc = "folog" /\ foleft > 0 /\ Prompt
  /\ (~ok => cnt.fail < MaxFail /\ EnvOK)
  /\ UNCHANGED <<slog, fo, wire, store, info, rng, open, active, balancing, cwc, finClose, finEnd,
                 rebalances, stopped, ctxs, synVars, dcwc, opener, opened, clo, spc, rpc, reop, rmVars, scr, sinfo>>
  /\ IF ~ok THEN /\ opc' = "none" /\ cnt' = [cnt EXCEPT !.fail = @ + 1] /\ Die(<<[ev |-> "Fail", what |-> "FoLog"]>>)
                 /\ UNCHANGED <<obsvVars, obsNil, foleft, lpart, live, offs, dirty, flag, sv, dpc>>
     ELSE /\ UNCHANGED <<up, mpc, cnt>>
          /\ foleft' = foleft - 1
          /\ IF foleft = 1
             THEN /\ offs' = [v \in VB |-> IF InRange(v) THEN LoadedOff(v) ELSE NoOff]
                  /\ dirty' = {v \in RangeSet : HighOf(v) # 0}
                  /\ flag' = (\E v \in RangeSet : HighOf(v) # 0) /\ sv' = Frozen(TRUE, TRUE)
                  /\ StartOpening(<<>>)
             ELSE /\ Emit(<<>>) /\ UNCHANGED <<opc, obsvVars, obsNil, live, offs, dirty, flag, sv, dpc>>

\* the last stream is open: rest of Open (l.265-271) and, for the timer goroutine, of rebalance (l.318-322)
OpenRetEv(v, ok, rb, f) == [ev |-> "OpenRet", vb |-> v, ok |-> ok, uuid |-> IF ok THEN fo[v] ELSE 0,
                            rollback |-> rb, f |-> f]
FinishOpen(pre) ==
  LET sp == Spawn(tokC, tokE, waits, wpark) IN
  /\ opc' = (IF HoldCb /\ opener # "main" THEN "cbend" ELSE "none") /\ open' = TRUE
  /\ tokC' = sp[1] /\ tokE' = sp[2] /\ waits' = sp[3] /\ wpark' = sp[4]
  /\ IF opener = "main"
     THEN /\ mpc' = "running"
          /\ Emit(pre \o <<CB("AfterStreamStart")>>)
          /\ UNCHANGED <<rebalances, balancing, rlock>>
     ELSE /\ rebalances' = rebalances + 1 /\ balancing' = FALSE /\ UNCHANGED mpc
          /\ IF HoldCb
             THEN \* stream.rebalance l.330-338: balancing is down, AfterRebalanceEnd is being handled, the deferred Unlock is still to come
                  /\ UNCHANGED rlock
                  /\ Emit(pre \o <<CB("AfterStreamStart"), CB("AfterRebalanceEnd"), [ev |-> "CallbackHeld", name |-> "AfterRebalanceEnd"]>>)
             ELSE /\ rlock' = FALSE
                  /\ Emit(pre \o <<CB("AfterStreamStart"), CB("AfterRebalanceEnd")>>)
  /\ opener' = "none"

\* the server answers the stream request of v: res = "ok" | "err" | "rb" (rolled back to r, see client.go l.600-730)
OpenRet(v, res, r) ==
  /\ UNCHANGED wind
  /\ up /\ opc = "opening" /\ v \in RangeSet \ opened /\ Prompt
  /\ (res = "err" => cnt.fail < MaxFail /\ EnvOK)
  /\ (res = "rb" => Rollbacks /\ r <= offs[v].seq /\ offs[v].seq > 0 /\ EnvOK)
  /\ (res # "rb" => r = 0)
  /\ UNCHANGED <<slog, fo, store, info, osnap, oclosed, oendclosed, ocnt, offs, dirty, flag, rng, obsNil, active, cwc,
                 finClose, finEnd, stopped, ctxs, timers, cur, slock, cgen, dcwc, foleft, lpart, clo, spc, sv, rpc, dpc, reop, rmVars, scr, sinfo>>
  /\ IF res = "err"                                   \* openAllStreams: panic in the goroutine
     THEN /\ cnt' = [cnt EXCEPT !.fail = @ + 1] /\ opc' = "none"
          /\ Die(<<OpenRetEv(v, FALSE, FALSE, 0)>>)
          /\ UNCHANGED <<wire, ouuid, ocatch, open, balancing, rebalances, tokC, tokE, waits, wpark, rlock, opener,
                         opened, live>>
     ELSE /\ UNCHANGED <<up, cnt>>
          /\ opened' = opened \cup {v} /\ live' = live \cup {v}
          /\ ouuid' = [ouuid EXCEPT ![v] = fo[v]]
          /\ ocatch' = [ocatch EXCEPT ![v] = IF res = "rb" THEN offs[v].seq ELSE 0 - 1]
          /\ wire' = [wire EXCEPT ![v] = WireFrom(slog[v], IF res = "rb" THEN r ELSE offs[v].seq, <<>>)]
          /\ IF opened' = RangeSet
             THEN FinishOpen(<<OpenRetEv(v, TRUE, res = "rb", IF res = "rb" THEN offs[v].seq ELSE 0)>>)
             ELSE /\ Emit(<<OpenRetEv(v, TRUE, res = "rb", IF res = "rb" THEN offs[v].seq ELSE 0)>>)
                  /\ UNCHANGED <<mpc, open, balancing, rebalances, tokC, tokE, waits, wpark, rlock, opener, opc>>

-----------------------------------------------------------------------------
(* data path: the dispatch goroutine of v hands the next wire event to the observer                  *)
Moves(v, f) == InRange(v) /\ ~(offs[v] # NoOff /\ offs[v].seq > f.seq)      \* setOffset l.88-93
TrackEvs(v, f) == IF Moves(v, f) THEN <<[ev |-> "Track", vb |-> v, off |-> f]>> ELSE <<>>
SetOD(v, f, mk) ==
  IF Moves(v, f)
  THEN /\ offs' = [offs EXCEPT ![v] = f]
       /\ dirty' = IF mk THEN dirty \cup {v} ELSE dirty
  ELSE UNCHANGED <<offs, dirty>>
\* the flag is raised together with the mark (before the fix of F7 only Ack raised it)
SetOffset(v, f, mk) ==
  /\ SetOD(v, f, mk)
  /\ flag' = IF Moves(v, f) /\ mk /\ "F7" \notin Bugs THEN TRUE ELSE flag

SentEv(v, x) == [ev |-> "Sent", vb |-> v, e |-> x]
PushedEv(v) == [ev |-> "Pushed", vb |-> v]
Bump(c, k) == IF k = "mut" THEN <<c[1] + 1, c[2], c[3]>>
              ELSE IF k = "del" THEN <<c[1], c[2] + 1, c[3]>> ELSE <<c[1], c[2], c[3] + 1>>

\* needCatchup (observer.go l.90-102): returns <<skip, catchup'>>
Catch(v, q) == IF ocatch[v] < 0 THEN <<FALSE, 0 - 1>>
               ELSE IF q >= ocatch[v] THEN <<q = ocatch[v], 0 - 1>>
               ELSE <<TRUE, ocatch[v]>>
InSnap(v, q) == osnap[v] # NoSnap /\ osnap[v][1] <= q /\ q <= osnap[v][2]

\* candidates for the next event on the stream of v
NextEvents(v) == IF wire[v] # <<>> THEN {Head(wire[v])} ELSE Gen(v)

\* the part of an observer callback after the rollback-mitigation gate (sent: the Sent event was already emitted)
SentOf(v, x, sent) == IF sent THEN <<>> ELSE <<SentEv(v, x)>>
PushBody(v, x, hold, sent) ==
  /\ LET f == Off(ouuid[v], x.q, osnap[v][1], osnap[v][2]) IN
     CASE x.k = "mark" ->                       \* SnapshotMarker l.157-170
            /\ osnap' = [osnap EXCEPT ![v] = <<x.s, x.e>>]
            /\ UNCHANGED <<up, mpc, ocatch, ocnt, offs, dirty, flag, ctxs, dpc>>
            /\ Emit(SentOf(v, x, sent) \o <<PushedEv(v)>>)
       [] x.k = "adv" ->                        \* SeqNoAdvanced l.414-437 (control: no catch-up)
            LET g == Off(ouuid[v], x.q, x.q, x.q) IN
            /\ osnap' = [osnap EXCEPT ![v] = <<x.q, x.q>>]
            /\ UNCHANGED <<up, mpc, ocatch, ocnt, ctxs, dpc>>
            /\ IF oclosed[v] THEN UNCHANGED <<offs, dirty, flag>> /\ Emit(SentOf(v, x, sent) \o <<PushedEv(v)>>)
               ELSE SetOffset(v, g, TRUE) /\ Emit(SentOf(v, x, sent) \o TrackEvs(v, g) \o <<PushedEv(v)>>)
       [] x.k = "sys" ->                        \* CreateCollection ... l.284-406
            LET c == Catch(v, x.q) IN
            /\ ocatch' = [ocatch EXCEPT ![v] = c[2]]
            /\ UNCHANGED <<osnap, ocnt, ctxs, dpc>>
            /\ IF c[1] THEN /\ UNCHANGED <<up, mpc, offs, dirty, flag>>
                            /\ Emit(SentOf(v, x, sent) \o <<PushedEv(v)>>)
               ELSE IF ~InSnap(v, x.q) THEN UNCHANGED <<offs, dirty, flag>> /\ Die(SentOf(v, x, sent))
               ELSE IF oclosed[v] THEN /\ UNCHANGED <<up, mpc, offs, dirty, flag>>
                                       /\ Emit(SentOf(v, x, sent) \o <<PushedEv(v)>>)
               ELSE /\ SetOffset(v, f, TRUE)
                    /\ UNCHANGED <<up, mpc>>
                    /\ Emit(SentOf(v, x, sent) \o TrackEvs(v, f) \o <<PushedEv(v)>>)
       [] OTHER ->                              \* Mutation / Deletion / Expiration l.185-270
            LET c == Catch(v, x.q) IN
            /\ ocatch' = [ocatch EXCEPT ![v] = c[2]]
            /\ UNCHANGED osnap
            /\ IF c[1] \/ x.old
               THEN /\ UNCHANGED <<up, mpc, offs, dirty, flag, ocnt, ctxs, dpc>>
                    /\ Emit(SentOf(v, x, sent) \o <<PushedEv(v)>>)
               ELSE IF ~InSnap(v, x.q) THEN UNCHANGED <<offs, dirty, flag, ocnt, ctxs, dpc>> /\ Die(SentOf(v, x, sent))
               ELSE IF oclosed[v]                      \* sendOrSkip drops it; the counter still moves (l.210)
               THEN /\ ocnt' = [ocnt EXCEPT ![v] = Bump(@, x.k)]
                    /\ UNCHANGED <<up, mpc, offs, dirty, flag, ctxs, dpc>>
                    /\ Emit(SentOf(v, x, sent) \o <<PushedEv(v)>>)
               ELSE IF Reserved(x)                     \* stream.go waitAndForward l.118-121
               THEN /\ ocnt' = [ocnt EXCEPT ![v] = Bump(@, x.k)]
                    /\ SetOffset(v, f, FALSE)
                    /\ UNCHANGED <<up, mpc, ctxs, dpc>>
                    /\ Emit(SentOf(v, x, sent) \o TrackEvs(v, f) \o <<PushedEv(v)>>)
               ELSE /\ ctxs' = Append(ctxs, [vb |-> v, off |-> f, gen |-> cgen, held |-> FALSE])
                    /\ UNCHANGED <<up, mpc, offs, dirty, flag>>
                    /\ LET c0 == [ev |-> "Consume", vb |-> v, k |-> x.k, q |-> x.q, key |-> x.key, off |-> f] IN
                       IF hold   \* the consumer blocks inside ConsumeEvent: counter not yet bumped
                       THEN /\ dpc' = [dpc EXCEPT ![v] = x.k] /\ UNCHANGED ocnt
                            /\ Emit(SentOf(v, x, sent) \o <<c0>>)
                       ELSE /\ UNCHANGED dpc /\ ocnt' = [ocnt EXCEPT ![v] = Bump(@, x.k)]
                            /\ Emit(SentOf(v, x, sent) \o <<c0, PushedEv(v)>>)

\* waitRollbackMitigation (observer.go l.104-120): every callback first waits until the threshold covers its seqno
\* (a marker: its start seqno) or the observer is closed
Push(v, x, hold) ==
  /\ UNCHANGED wind
  /\ up /\ ~Busy /\ EnvOK /\ v \in live /\ dpc[v] = "idle" /\ v \notin reop /\ dwait[v] = NoEvent
  /\ x \in NextEvents(v)
  /\ (hold => Hold)
  /\ UNCHANGED <<fo, store, info, cnt, ouuid, oclosed, oendclosed, rng, open, obsNil, active, balancing, cwc, finClose,
                 finEnd, rebalances, stopped, synVars, dcwc, opener, opc, opened, live, foleft, lpart, clo, spc, sv, rpc, reop, thr, rtab, rmon, scr, sinfo>>
  /\ IF wire[v] # <<>> THEN wire' = [wire EXCEPT ![v] = Tail(@)] /\ UNCHANGED slog
     ELSE slog' = [slog EXCEPT ![v] = Append(@, x)] /\ UNCHANGED wire
  /\ IF RM /\ rmon /\ GateSeq(x) > thr[v] /\ ~oclosed[v]
     THEN /\ dwait' = [dwait EXCEPT ![v] = x]
          /\ Emit(<<SentEv(v, x)>>)
          /\ UNCHANGED <<up, mpc, osnap, ocatch, ocnt, offs, dirty, flag, ctxs, dpc>>
     ELSE /\ PushBody(v, x, hold, FALSE) /\ UNCHANGED dwait

\* ... and goes on by itself once it does (not a step of the schedule)
GateOpen(v) ==
  /\ UNCHANGED wind
  /\ up /\ dwait[v] # NoEvent /\ (GateSeq(dwait[v]) <= thr[v] \/ oclosed[v])
  /\ dwait' = [dwait EXCEPT ![v] = NoEvent]
  /\ PushBody(v, dwait[v], FALSE, TRUE)
  /\ UNCHANGED <<slog, fo, wire, store, info, cnt, ouuid, oclosed, oendclosed, rng, open, obsNil, active, balancing, cwc, finClose,
                 finEnd, rebalances, stopped, synVars, dcwc, opener, opc, opened, live, foleft, lpart, clo, spc, sv, rpc, reop, thr, rtab, rmon, scr, sinfo>>

\* transcription of rollbackMitigation.getMinSeqNo (rollback_mitigation.go l.133-169)
RECURSIVE FirstPresent(_, _)
FirstPresent(tab, i) == IF i > Len(tab) THEN 0 ELSE IF ~tab[i].absent THEN i ELSE FirstPresent(tab, i + 1)
RECURSIVE MinFrom(_, _, _, _)
MinFrom(tab, i, uuid, m) ==
  IF i > Len(tab) THEN m
  ELSE IF tab[i].absent THEN MinFrom(tab, i + 1, uuid, m)
  ELSE IF tab[i].uuid # uuid THEN 0
  ELSE MinFrom(tab, i + 1, uuid, IF m > tab[i].seq THEN tab[i].seq ELSE m)
MinSeq(tab) == LET f == FirstPresent(tab, 1) IN IF f = 0 THEN 0 ELSE MinFrom(tab, f + 1, tab[f].uuid, tab[f].seq)

\* a copy of v answers OBSERVE_SEQNO (rollback_mitigation.go observe l.304-353): the table is updated when the answer
\* differs, the new minimum is dispatched to the observer (SetPersistSeqNo: 0 ignored, only increases)
Report(v, i, u, q) ==
  /\ UNCHANGED wind
  /\ up /\ RM /\ rmon /\ ~Busy /\ EnvOK /\ i \in 1..Slots /\ ~rtab[v][i].absent /\ cnt.acks + cnt.saves + cnt.notify + cnt.ends < 99
  /\ (rtab[v][i].uuid # u \/ rtab[v][i].seq # q)          \* (an identical answer changes nothing)
  /\ (RmMonotone => rtab[v][i].uuid # u \/ q >= rtab[v][i].seq)
  /\ rtab' = [rtab EXCEPT ![v][i] = [uuid |-> u, seq |-> q, absent |-> FALSE]]
  /\ LET m == MinSeq(rtab'[v]) IN thr' = [thr EXCEPT ![v] = IF m # 0 /\ m > @ THEN m ELSE @]
  /\ Emit(<<[ev |-> "Report", vb |-> v, slot |-> i, uuid |-> u, seq |-> q]>>)
  /\ UNCHANGED <<envVars, obsvVars, strVars, synVars, mpc, dcwc, opener, opc, opened, live, foleft, lpart, clo, spc, sv, rpc, dpc, reop, dwait, rmon, scr, sinfo>>

\* the cluster map stops listing copy i of v: configWatch -> reconfigure (l.278-302): the table is reset, the unlisted copies
\* are marked absent (markAbsentInstances) and the next observe round fills the table again from what the listed copies
\* answer - here: the table keeps the entries of the listed copies and the new minimum is dispatched
Absent(v, i) ==
  /\ UNCHANGED wind
  /\ up /\ RM /\ rmon /\ ~Busy /\ EnvOK /\ i \in 2..Slots /\ ~rtab[v][i].absent
  /\ rtab' = [rtab EXCEPT ![v][i].absent = TRUE]
  /\ LET m == MinSeq(rtab'[v]) IN thr' = [thr EXCEPT ![v] = IF m # 0 /\ m > @ THEN m ELSE @]
  /\ Emit(<<[ev |-> "Absent", vb |-> v, slot |-> i]>>)
  /\ UNCHANGED <<envVars, obsvVars, strVars, synVars, mpc, dcwc, opener, opc, opened, live, foleft, lpart, clo, spc, sv, rpc, dpc, reop, dwait, rmon, scr, sinfo>>

\* the harness switches the gate on once the stream is open and off before it asks for Close (see DESIGN: on rig A the
\* real rollbackMitigation object cannot be built; the observers' gate, getMinSeqNo and SetPersistSeqNo are real)
RmSwitch(on) ==
  /\ UNCHANGED wind
  /\ up /\ RM /\ ~Busy /\ mpc = "running" /\ rmon # on /\ (on => open /\ EnvOK)
  /\ rmon' = on /\ Emit(<<[ev |-> "RmSwitch", on |-> on, slots |-> Slots]>>)
  /\ UNCHANGED <<envVars, obsvVars, strVars, synVars, mpc, dcwc, opener, opc, opened, live, foleft, lpart, clo, spc, sv, rpc, dpc, reop, thr, rtab, dwait, scr, sinfo>>

\* ConsumeEvent returns
ConsRet(v) ==
  /\ UNCHANGED wind
  /\ up /\ dpc[v] # "idle" /\ Prompt
  /\ dpc' = [dpc EXCEPT ![v] = "idle"]
  /\ ocnt' = [ocnt EXCEPT ![v] = IF dpc[v] = "stale" THEN @ ELSE Bump(@, dpc[v])]
  /\ Emit(<<PushedEv(v)>>)
  /\ UNCHANGED <<envVars, osnap, ouuid, ocatch, oclosed, oendclosed, strVars, synVars, mpc, dcwc, opener, opc, opened,
                 live, foleft, lpart, clo, spc, sv, rpc, reop, rmVars, scr, sinfo>>

\* the consumer acknowledges the i-th context it was handed (stream.go l.128-131)
Ack(i) ==
  /\ up /\ ~Busy /\ EnvOK /\ i \in DOMAIN ctxs /\ cnt.acks < MaxAcks
  /\ cnt' = [cnt EXCEPT !.acks = @ + 1]
  /\ UNCHANGED <<up, slog, fo, wire, store, info, obsvVars, rng, open, obsNil, active, balancing, cwc, finClose, finEnd,
                 rebalances, stopped, ctxs, synVars, thrVars>>
  /\ LET c == ctxs[i] IN
     /\ SetOD(c.vb, c.off, TRUE)
     /\ flag' = TRUE
     /\ Emit(<<[ev |-> "Ack", vb |-> c.vb, off |-> c.off]>> \o TrackEvs(c.vb, c.off))

\* setOffset (stream.go l.88-104) is not atomic: offsets.Store, then the consumer's TrackOffset (user code: it may take any time),
\* then the dirty mark in the map that s.dirtyOffsets names AT THAT MOMENT, then the flag. AckBegin(i): the store is done and the
\* acknowledging goroutine is inside TrackOffset; AckMark(i): TrackOffset returned, mark + flag, Ack() returns.
\* While an acknowledgement is held only saves go on (Step): what the property quantifies over is the ack relative to a save.
Held == \E j \in DOMAIN ctxs : ctxs[j].held
AckBegin(i) ==
  /\ AckSplit /\ up /\ ~Busy /\ EnvOK /\ i \in DOMAIN ctxs /\ cnt.acks < MaxAcks /\ ~Held
  /\ Moves(ctxs[i].vb, ctxs[i].off)
  /\ cnt' = [cnt EXCEPT !.acks = @ + 1]
  /\ offs' = [offs EXCEPT ![ctxs[i].vb] = ctxs[i].off]
  /\ ctxs' = [ctxs EXCEPT ![i].held = TRUE]
  /\ UNCHANGED <<up, slog, fo, wire, store, info, obsvVars, dirty, flag, rng, open, obsNil, active, balancing, cwc, finClose, finEnd,
                 rebalances, stopped, synVars, thrVars>>
  /\ Emit(<<[ev |-> "AckHeld", vb |-> ctxs[i].vb, off |-> ctxs[i].off], [ev |-> "Track", vb |-> ctxs[i].vb, off |-> ctxs[i].off]>>)
AckMark(i) ==
  /\ up /\ i \in DOMAIN ctxs /\ ctxs[i].held
  /\ ctxs' = [ctxs EXCEPT ![i].held = FALSE]
  /\ dirty' = dirty \cup {ctxs[i].vb} /\ flag' = TRUE
  /\ UNCHANGED <<envVars, obsvVars, offs, rng, open, obsNil, active, balancing, cwc, finClose, finEnd,
                 rebalances, stopped, synVars, thrVars>>
  /\ Emit(<<[ev |-> "AckDone", vb |-> ctxs[i].vb, off |-> ctxs[i].off]>>)

-----------------------------------------------------------------------------
(* checkpoint.Save (checkpoint.go) by thread t (a driver thread, or "main" for the final save of      *)
(* dcp.close).                                                                                        *)
(*   Before the fix of F1 ("F1" \in Bugs) the protocol was                                            *)
(*     read (offsets, dirtyOffsets, flag) -> flag down: return -> LOCK -> dump the captured maps ->   *)
(*     metadata.Save -> on success UnmarkDirtyOffsets (flag down, NEW empty dirty map) -> unlock      *)
(*   which wipes the mark of an acknowledgement that lands while metadata.Save is in flight.          *)
(*   Since the fix it is                                                                              *)
(*     LOCK -> read -> flag down: return -> UnmarkDirtyOffsets -> dump -> metadata.Save ->            *)
(*     on failure MarkDirtyOffsets(dumped dirty set) -> unlock                                        *)
\* (the final save of dcp.close is not bracketed: the driver has no wrapper around it)
SaveCallEvs(t) == IF t = "main" THEN <<>> ELSE <<[ev |-> "SaveCall", t |-> t]>>
SaveRetEvs(t) == IF t = "main" THEN <<>> ELSE <<[ev |-> "SaveRet", t |-> t]>>

\* effect of Save() being entered by t: sets spc', sv'.  g = generation of the checkpoint object
EarlyReturn == "F1" \in Bugs /\ ~flag
SaveEnter(t, g) ==
  IF EarlyReturn
  THEN UNCHANGED <<spc, sv>>
  ELSE /\ spc' = [spc EXCEPT ![t] = "want"]      \* parked at vhook "save.prelock"
       /\ sv' = [sv EXCEPT ![t] = [SaverInit EXCEPT !.gen = g]]
SaveEnterEvs(t) == IF EarlyReturn THEN SaveCallEvs(t) \o SaveRetEvs(t) ELSE SaveCallEvs(t)

SaveStart(t) ==
  /\ up /\ ~Busy /\ t \in Savers /\ spc[t] = "idle" /\ cgen > 0 /\ mpc = "running"
  /\ \/ EnvOK /\ cnt.saves < MaxSaves /\ UNCHANGED wind
     \/ wind = "on" /\ wind' = "flushed" /\ \A u \in SaveThreads : spc[u] = "idle"     \* the one flush save of the wind-down
  /\ cnt' = [cnt EXCEPT !.saves = @ + 1]
  /\ SaveEnter(t, cgen)
  /\ Emit(SaveEnterEvs(t))
  /\ UNCHANGED <<up, slog, fo, wire, store, info, obsvVars, strVars, synVars, mpc, dcwc, opener, opc, opened, live, foleft, lpart,
                 clo, rpc, dpc, reop, rmVars, scr, sinfo>>

SaveLockBody(t) ==
  IF "F1" \in Bugs
  THEN LET om == IF sv[t].olive THEN offs ELSE sv[t].osnapm
           dm == IF sv[t].dlive THEN dirty ELSE sv[t].dsnapm
       IN /\ slock' = slock \cup {sv[t].gen} /\ spc' = [spc EXCEPT ![t] = "storing"]
          /\ sv' = [sv EXCEPT ![t].dump = om, ![t].ddirty = dm, ![t].wr = {}]
          /\ UNCHANGED <<dirty, flag>>
          /\ Emit(IF ReadOnly THEN <<>> ELSE <<[ev |-> "SaveBegin", t |-> t, dump |-> om, dirty |-> SortedSeq(dm)]>>)
  ELSE \* lock taken, flag read (it is up): parked at vhook "save.take" (entry of UnmarkDirtyOffsets)
       /\ slock' = slock \cup {sv[t].gen} /\ spc' = [spc EXCEPT ![t] = "take"]
       /\ UNCHANGED <<sv, dirty, flag>>
       /\ Emit(<<>>)

\* UnmarkDirtyOffsets (the dirty set is taken over), dump of offsets and of the taken set, metadata.Save is entered
SaveTake(t) ==
  /\ UNCHANGED wind
  /\ up /\ spc[t] = "take" /\ Prompt
  /\ spc' = [spc EXCEPT ![t] = "storing"]
  /\ LET om == IF sv[t].olive THEN offs ELSE sv[t].osnapm
         dm == IF sv[t].dlive THEN dirty ELSE sv[t].dsnapm
     IN /\ sv' = [Frozen(TRUE, FALSE) EXCEPT ![t] = [sv[t] EXCEPT !.dump = om, !.ddirty = dm, !.wr = {}]]
        /\ Emit(IF ReadOnly THEN <<>> ELSE <<[ev |-> "SaveBegin", t |-> t, dump |-> om, dirty |-> SortedSeq(dm)]>>)
  /\ flag' = FALSE /\ dirty' = {}
  /\ UNCHANGED <<envVars, obsvVars, offs, rng, open, obsNil, active, balancing, cwc, finClose, finEnd, rebalances, stopped, ctxs,
                 synVars, mpc, dcwc, opener, opc, opened, live, foleft, lpart, clo, rpc, dpc, reop, rmVars, scr, sinfo>>

\* the backend makes the checkpoint of one dirty vb durable (one write per dirty vb, any order)
StoreWrite(t, v) ==
  /\ UNCHANGED wind
  /\ up /\ spc[t] = "storing" /\ v \in sv[t].ddirty \ sv[t].wr /\ sv[t].dump[v] # NoOff /\ Prompt /\ ~ReadOnly
  /\ store' = [store EXCEPT ![v] = sv[t].dump[v]]
  /\ sv' = [sv EXCEPT ![t].wr = @ \cup {v}]
  /\ Emit(<<[ev |-> "StoreWrite", t |-> t, vb |-> v, off |-> sv[t].dump[v]]>>)
  /\ UNCHANGED <<up, slog, fo, wire, info, cnt, obsvVars, strVars, synVars, mpc, dcwc, opener, opc, opened, live, foleft, lpart, clo,
                 spc, rpc, dpc, reop, rmVars, scr, sinfo>>

Writable(t) == {v \in sv[t].ddirty : sv[t].dump[v] # NoOff}

SaveRetBody(t, ok) ==   \* flag', dirty', sv' after metadata.Save returned
  IF "F1" \in Bugs
  THEN IF ok
       THEN /\ flag' = FALSE /\ dirty' = {}
            /\ sv' = Frozen(TRUE, FALSE)
       ELSE UNCHANGED <<flag, dirty, sv>>
  ELSE IF ok THEN UNCHANGED <<flag, dirty, sv>>
       ELSE /\ flag' = (flag \/ sv[t].ddirty # {}) /\ dirty' = dirty \cup sv[t].ddirty /\ UNCHANGED sv

-----------------------------------------------------------------------------
(* stream.Close (l.414-450), called by dcp.close (main thread, closeWithCancel = TRUE only for a      *)
(* signal) or by stream.Rebalance (a notification thread, FALSE)                                      *)

ClosableVbs == {v \in VB : offs[v] # NoOff}
CloseBeginEvs == <<CB("BeforeStreamStop")>> \o [i \in 1..Cardinality(ClosableVbs) |->
                     [ev |-> "CloseReq", vb |-> SortedSeq(ClosableVbs)[i]]]

\* timer armed by Rebalance after its Close (l.302-308)
ArmRebalance(ts) == Append(ts, [fn |-> "rebalance", st |-> "armed"])

\* rest of Close once every CloseStream returned (l.434-449), then the continuation of thread who:
\*  - notification thread: AfterRebalanceStart, arm the timer, return (the rebalance lock stays held)
\*  - main: rest of dcp.close: DcpClose, Close of the client; Start returns
\* assigns oendclosed obsNil offs dirty sv open tokC tokE waits wpark clo mpc timers cur rpc emitv
CloseTail(who, pre) ==
  LET p == IF finEnd THEN <<tokC, tokE, waits, wpark, FALSE>> ELSE Put("close", tokC, tokE, waits, wpark) IN
  /\ oendclosed' = [v \in VB |-> TRUE] /\ obsNil' = TRUE
  /\ offs' = [v \in VB |-> NoOff] /\ dirty' = {} /\ open' = FALSE
  /\ sv' = Frozen(TRUE, TRUE)
  /\ tokC' = p[1] /\ tokE' = p[2] /\ waits' = p[3] /\ wpark' = p[4]
  /\ clo' = NoClose
  /\ IF who = "main"
     THEN /\ mpc' = "closed"
          /\ Emit(pre \o <<CB("AfterStreamStop"), [ev |-> "DcpClose"], [ev |-> "ClientClose"], [ev |-> "CloseReturn"]>>)
          /\ UNCHANGED <<timers, cur, rpc>>
     ELSE /\ rpc' = [rpc EXCEPT ![who] = "idle"]
          /\ timers' = ArmRebalance(timers) /\ cur' = Len(timers) + 1
          /\ Emit(pre \o <<CB("AfterStreamStop"), CB("AfterRebalanceStart")>>)
          /\ UNCHANGED mpc

\* CloseStream of v returns (the server will answer with STREAM_END(closed), see End)
CloseRet(v) ==
  /\ UNCHANGED wind
  /\ up /\ clo.on /\ v \in clo.left /\ Prompt
  /\ UNCHANGED <<up, slog, fo, wire, store, info, cnt, osnap, ouuid, ocatch, oclosed, ocnt, flag, rng, active, balancing, cwc,
                 finClose, finEnd, rebalances, stopped, ctxs, rlock, slock, cgen, dcwc, opener, opc, opened, live, foleft, lpart,
                 spc, dpc, reop, rmVars, scr, sinfo>>
  /\ IF clo.left = {v}
     THEN CloseTail(clo.who, <<>>)
     ELSE /\ clo' = [clo EXCEPT !.left = @ \ {v}]
          /\ Emit(<<>>)
          /\ UNCHANGED <<oendclosed, obsNil, offs, dirty, sv, open, tokC, tokE, waits, wpark, timers, cur, mpc, rpc>>

-----------------------------------------------------------------------------
(* dcp.Close() / SIGTERM, or the stream stopped on its own: the main thread leaves its select and     *)
(* runs dcp.close (dcp.go l.195-233): discovery close, final Save (auto), unsubscribe, stream.Close,  *)
(* DcpClose, Close                                                                                    *)

\* main enters stream.Close(cancel).  With the stream already closed by a rebalance: before the fix of
\* F2 a nil-pointer panic; since the fix the pending re-open timer is stopped and Close returns.
\* assigns up mpc cwc oclosed clo timers emitv
MainStreamClose(pre, cancel) ==
  /\ cwc' = cancel
  /\ IF obsNil
     THEN IF "F2" \in Bugs
          THEN /\ Die(pre \o <<CB("BeforeStreamStop")>>)
               /\ UNCHANGED <<oclosed, clo, timers>>
          ELSE /\ mpc' = "closed" /\ UNCHANGED <<up, oclosed, clo>>
               /\ timers' = IF cur > 0 /\ timers[cur].st = "armed"
                            THEN [timers EXCEPT ![cur].st = "stopped"] ELSE timers
               /\ Emit(pre \o <<[ev |-> "DcpClose"], [ev |-> "ClientClose"], [ev |-> "CloseReturn"]>>)
     ELSE /\ UNCHANGED <<up, timers>>
          /\ oclosed' = [v \in VB |-> TRUE]
          /\ mpc' = "closing" /\ clo' = [on |-> TRUE, who |-> "main", left |-> ClosableVbs]
          /\ Emit(pre \o CloseBeginEvs)

\* main runs dcp.close up to its first gate.  assigns spc sv up mpc cwc oclosed clo timers emitv
MainCloseBegin(pre, cancel) ==
  IF AutoCkpt /\ ~EarlyReturn
  THEN /\ SaveEnter("main", cgen) /\ mpc' = "finalsave"
       /\ Emit(pre \o SaveCallEvs("main"))
       /\ UNCHANGED <<up, cwc, oclosed, clo, timers>>
  ELSE /\ UNCHANGED <<spc, sv>>
       /\ MainStreamClose(pre \o (IF AutoCkpt THEN SaveCallEvs("main") \o SaveRetEvs("main") ELSE <<>>), cancel)

\* Close() is called
CloseCall ==
  /\ UNCHANGED wind
  /\ up /\ mpc = "running" /\ ~Busy /\ EnvOK /\ AllowClose /\ ~rmon /\ ~stopped /\ ~clo.on /\ reop = {}
  /\ (GapReopen \/ opener # "timer")
  /\ dcwc' = TRUE
  /\ UNCHANGED <<slog, fo, wire, store, info, cnt, osnap, ouuid, ocatch, oendclosed, ocnt, offs, dirty, flag, rng, open, obsNil,
                 active, balancing, finClose, finEnd, rebalances, stopped, ctxs, tokC, tokE, waits, wpark, cur, rlock, slock,
                 cgen, opener, opc, opened, live, foleft, lpart, rpc, dpc, reop, rmVars, scr, sinfo>>
  /\ MainCloseBegin(<<[ev |-> "CloseCall"]>>, TRUE)

\* the thread holds the save lock now: flag read; a saver whose flag is down returns (main: goes on with dcp.close)
SaveAcq(t) ==
  /\ UNCHANGED <<slog, fo, wire, store, info, cnt, osnap, ouuid, ocatch, oendclosed, ocnt, offs, rng, open, obsNil, active,
                 balancing, finClose, finEnd, rebalances, stopped, ctxs, tokC, tokE, waits, wpark, cur, rlock, cgen,
                 dcwc, opener, opc, opened, live, foleft, lpart, rpc, dpc, reop, rmVars, scr, sinfo>>
  /\ IF "F1" \notin Bugs /\ ~flag
     THEN /\ UNCHANGED <<slock, sv, dirty, flag>>
          /\ spc' = [spc EXCEPT ![t] = "idle"]
          /\ IF t = "main"
             THEN MainStreamClose(SaveRetEvs(t), dcwc)
             ELSE /\ Emit(SaveRetEvs(t)) /\ UNCHANGED <<up, mpc, cwc, oclosed, clo, timers>>
     ELSE /\ SaveLockBody(t)
          /\ UNCHANGED <<up, mpc, cwc, oclosed, clo, timers>>

\* save.prelock -> saveLock.Lock(): the lock is free: taken at once; it is held: the thread blocks inside Lock()
SaveLock(t) ==
  /\ UNCHANGED wind
  /\ up /\ ~Busy /\ spc[t] = "want"
  /\ (t = "main" => ~clo.on /\ (GapReopen \/ opener # "timer"))
  /\ IF sv[t].gen \notin slock THEN SaveAcq(t)
     ELSE /\ \A u \in SaveThreads : spc[u] # "blocked"       \* (one waiter at a time: the order among several is the runtime's)
          /\ "F1" \notin Bugs
          /\ spc' = [spc EXCEPT ![t] = "blocked"]
          /\ Emit(<<>>)
          /\ UNCHANGED <<envVars, obsvVars, strVars, synVars, mpc, dcwc, opener, opc, opened, live, foleft, lpart, clo, sv, rpc, dpc, reop, rmVars, scr, sinfo>>

\* ... and gets the lock as soon as its holder releases it (not a step of the schedule: it happens by itself)
SaveAcquire(t) ==
  /\ UNCHANGED wind
  /\ up /\ spc[t] = "blocked" /\ sv[t].gen \notin slock /\ Prompt0 /\ ~GateReady
  /\ SaveAcq(t)

\* metadata.Save returns. On success the rest of Save runs and Save returns; on failure the thread goes on to
\* stream.MarkDirtyOffsets, whose entry is a pause point (vhook "save.remark"): it still holds the save lock there
Fixed == "F1" \notin Bugs
SaveFinish(t, ok, pre) ==      \* the rest of Save after the store call (and, on failure, the re-mark): unlock, return
  /\ spc' = [spc EXCEPT ![t] = "idle"]
  /\ slock' = slock \ {sv[t].gen}
  /\ UNCHANGED <<slog, fo, wire, store, info, cnt, osnap, ouuid, ocatch, oendclosed, ocnt, offs, rng, open, obsNil, active,
                 balancing, finClose, finEnd, rebalances, stopped, ctxs, tokC, tokE, waits, wpark, cur, rlock, cgen,
                 dcwc, opener, opc, opened, live, foleft, lpart, rpc, dpc, reop, rmVars, scr, sinfo>>
  /\ SaveRetBody(t, ok)
  /\ LET evs == pre \o SaveRetEvs(t) IN
     IF t = "main" THEN MainStreamClose(evs, dcwc)
     ELSE /\ Emit(evs) /\ UNCHANGED <<up, mpc, cwc, oclosed, clo, timers>>
SaveRet(t, ok) ==
  /\ UNCHANGED wind
  /\ up /\ spc[t] = "storing" /\ Prompt
  /\ (ok => ReadOnly \/ sv[t].wr = Writable(t))
  /\ (~ok => FailSaves /\ EnvOK /\ ~ReadOnly)
  /\ (t = "main" => ~clo.on /\ (GapReopen \/ opener # "timer"))
  /\ LET endEv == IF ReadOnly THEN <<>> ELSE <<[ev |-> "SaveEnd", t |-> t, ok |-> ok]>> IN
     IF ok \/ ~Fixed
     THEN SaveFinish(t, ok, endEv)
     ELSE /\ spc' = [spc EXCEPT ![t] = "remark"] /\ Emit(endEv)
          /\ UNCHANGED <<envVars, obsvVars, strVars, synVars, mpc, dcwc, opener, opc, opened, live, foleft, lpart, clo, sv, rpc, dpc, reop, rmVars, scr, sinfo>>
\* ... MarkDirtyOffsets puts the marks of the failed save back, Save unlocks and returns
SaveRemark(t) ==
  /\ UNCHANGED wind
  /\ up /\ spc[t] = "remark" /\ Prompt
  /\ (t = "main" => ~clo.on /\ (GapReopen \/ opener # "timer"))
  /\ SaveFinish(t, FALSE, <<>>)

-----------------------------------------------------------------------------
(* stream.Rebalance (l.278-309) called by a notification thread t \in {"bus","api"} or re-armed on a  *)
(* timer ("tmr"); stream.rebalance (l.311-323) called by the timer                                    *)

\* the check at the top of Rebalance.  Since the fix of F5 "balancing" alone decides, and it is set
\* here, atomically with the test; before: "balancing /\ timer # nil", and balancing was set after the lock.
TopBranchA == IF "F5" \in Bugs THEN balancing /\ cur > 0 ELSE balancing
\* the branch that only moves the pending re-open: Stop()==true: Reset ; else a new timer for Rebalance
PostponedTimers ==
  IF cur > 0 /\ timers[cur].st = "armed" THEN timers
  ELSE IF cur > 0 THEN Append(timers, [fn |-> "Rebalance", st |-> "armed"])
  ELSE timers
PostponedCur == IF cur > 0 /\ timers[cur].st # "armed" THEN Len(timers) + 1 ELSE cur

\* Rebalance() is entered by t: assigns timers cur rpc balancing
RebalanceEnter(t, ts) ==
  IF TopBranchA
  THEN /\ timers' = (IF cur > 0 /\ ts[cur].st = "armed" THEN ts
                     ELSE IF cur > 0 THEN Append(ts, [fn |-> "Rebalance", st |-> "armed"]) ELSE ts)
       /\ cur' = (IF cur > 0 /\ ts[cur].st # "armed" THEN Len(ts) + 1 ELSE cur)
       /\ UNCHANGED <<rpc, balancing>>
  ELSE /\ rpc' = [rpc EXCEPT ![t] = "want"]      \* parked at vhook rb.prelock
       /\ balancing' = IF "F5" \in Bugs THEN balancing ELSE TRUE
       /\ timers' = ts /\ UNCHANGED cur

\* a membership change is published (bus) or GET /rebalance is served (api): the listener calls Rebalance
Notify(t, i) ==
  /\ UNCHANGED wind
  /\ up /\ ~Busy /\ EnvOK /\ mpc = "running" /\ t \in {"bus", "api"} /\ rpc[t] = "idle" /\ cnt.notify < MaxNotify
  /\ i \in Infos
  /\ (t = "api" => open /\ i = info)             \* GET /rebalance: only while the stream is open, no new membership
  /\ (t = "bus" => i # info)                    \* a repeated membership is not announced (C10/C11)
  /\ info' = i
  /\ cnt' = [cnt EXCEPT !.notify = @ + 1]
  /\ UNCHANGED <<up, slog, fo, wire, store, obsvVars, offs, dirty, flag, rng, open, obsNil, active, cwc, finClose, finEnd,
                 rebalances, stopped, ctxs, tokC, tokE, waits, wpark, rlock, slock, cgen, mpc, dcwc, opener, opc, opened,
                 live, foleft, lpart, clo, spc, sv, dpc, reop, rmVars, scr, sinfo>>
  /\ RebalanceEnter(t, timers)
  /\ Emit(<<[ev |-> "Notify", src |-> t, member |-> i[1], total |-> i[2]]>>)

\* a membership change is published while dcp.close is closing the stream, or after it: dcp.close has unsubscribed the client's
\* listener before stream.Close (dcp.go l.205), the membership's own listener went with the vBucket discovery: nothing happens
NotifyLate ==
  /\ UNCHANGED wind
  /\ up /\ ~Busy /\ EnvOK /\ mpc \in {"closing", "closed"} /\ cnt.notify < MaxNotify
  /\ cnt' = [cnt EXCEPT !.notify = @ + 1]
  /\ Emit(<<[ev |-> "NotifyLate"]>>)
  /\ UNCHANGED <<up, slog, fo, wire, store, info, obsvVars, strVars, synVars, thrVars>>

\* rb.prelock -> rebalanceLock.Lock -> BeforeRebalanceStart -> Close(false) up to the CloseStream gates
RbBody(t, from) ==
  /\ UNCHANGED wind
  /\ up /\ (IF from = "want" THEN ~Busy ELSE Prompt0) /\ rpc[t] = from /\ ~rlock /\ ~clo.on /\ mpc \in {"running", "closed"}
  /\ reop = {}                        \* not explored: a rebalance closing the stream while a re-open request is outstanding
  /\ rlock' = TRUE
  /\ UNCHANGED <<up, slog, fo, wire, store, info, cnt, osnap, ouuid, ocatch, oendclosed, ocnt, flag, rng, active, finClose,
                 finEnd, rebalances, stopped, ctxs, slock, cgen, mpc, dcwc, opener, opc, opened, live, foleft, lpart, spc, sv, dpc,
                 reop, rmVars, scr, sinfo, offs, dirty, open, obsNil, tokC, tokE, waits, wpark>>
  /\ IF "F5" \in Bugs /\ balancing
     THEN \* l.295: already balancing: no Close, arm another re-open
          /\ rpc' = [rpc EXCEPT ![t] = "idle"]
          /\ timers' = ArmRebalance(timers) /\ cur' = Len(timers) + 1
          /\ Emit(<<CB("BeforeRebalanceStart"), CB("AfterRebalanceStart")>>)
          /\ UNCHANGED <<oclosed, balancing, cwc, clo>>
     ELSE IF obsNil   \* Close on an already closed stream: nil-pointer panic on the notification goroutine
     THEN /\ Die(<<CB("BeforeRebalanceStart"), CB("BeforeStreamStop")>>)
          /\ UNCHANGED <<rpc, timers, cur, oclosed, balancing, cwc, clo>>
     ELSE /\ balancing' = TRUE /\ cwc' = FALSE
          /\ oclosed' = [v \in VB |-> TRUE]
          /\ rpc' = [rpc EXCEPT ![t] = "closing"]
          /\ clo' = [on |-> TRUE, who |-> t, left |-> ClosableVbs]
          /\ Emit(<<CB("BeforeRebalanceStart")>> \o CloseBeginEvs)
          /\ UNCHANGED <<timers, cur>>

RbLock(t) == RbBody(t, "want")
\* the handler of AfterRebalanceEnd returns: rebalance()'s deferred Unlock
CbRet ==
  /\ UNCHANGED wind
  /\ up /\ opc = "cbend" /\ opc' = "none" /\ rlock' = FALSE
  /\ Emit(<<[ev |-> "CallbackDone", name |-> "AfterRebalanceEnd"]>>)
  /\ UNCHANGED <<envVars, obsvVars, strVars, tokC, tokE, waits, wpark, timers, cur, slock, cgen, mpc, dcwc, opener, opened, live, foleft,
                 lpart, clo, spc, sv, rpc, dpc, reop, scr, sinfo, rmVars>>
\* rb.prelock -> rebalanceLock.Lock() while the previous rebalance is still inside its AfterRebalanceEnd handler: the thread blocks
RbWait(t) ==
  /\ UNCHANGED wind
  /\ up /\ rpc[t] = "want" /\ rlock /\ opc = "cbend" /\ \A u \in RbThreads : rpc[u] # "blocked"
  /\ rpc' = [rpc EXCEPT ![t] = "blocked"] /\ Emit(<<>>)
  /\ UNCHANGED <<envVars, obsvVars, strVars, synVars, mpc, dcwc, opener, opc, opened, live, foleft, lpart, clo, spc, sv, dpc, reop, scr, sinfo, rmVars>>
\* ... and goes on the moment the lock is released (not a step of the schedule: it happens by itself)
RbAcquire(t) == RbBody(t, "blocked")

\* a Close with nothing to close continues at once (cannot happen while offsets are loaded)
CloseEmpty ==
  /\ UNCHANGED wind
  /\ up /\ clo.on /\ clo.left = {} /\ Prompt
  /\ UNCHANGED <<up, slog, fo, wire, store, info, cnt, osnap, ouuid, ocatch, oclosed, ocnt, flag, rng, active, balancing, cwc,
                 finClose, finEnd, rebalances, stopped, ctxs, rlock, slock, cgen, dcwc, opener, opc, opened, live, foleft, lpart,
                 spc, dpc, reop, rmVars, scr, sinfo>>
  /\ CloseTail(clo.who, <<>>)

\* a timer fires
TimerFire(i) ==
  /\ UNCHANGED wind
  /\ up /\ ~Busy /\ i \in DOMAIN timers /\ timers[i].st = "armed"
  /\ IF timers[i].fn = "rebalance"
     THEN \* stream.rebalance: BeforeRebalanceEnd, Open() up to metadata.Load
          /\ (GapReopen \/ mpc = "running")
          /\ (GapReopen \/ \A t \in SaveThreads : spc[t] = "idle")   \* not explored: a Save call that spans the re-open (it would use the
                                                       \* save lock of the previous checkpoint object)
          /\ timers' = [timers EXCEPT ![i].st = "fired"]
          /\ OpenBegin("timer")
          /\ Emit(<<CB("BeforeRebalanceEnd")>> \o OpenBeginEvs)
          /\ UNCHANGED <<up, slog, fo, wire, store, info, cnt, obsvVars, offs, dirty, flag, open, obsNil, balancing, cwc,
                         rebalances, stopped, ctxs, tokC, tokE, waits, wpark, cur, rlock, slock, mpc, dcwc, live, foleft, lpart,
                         clo, spc, sv, rpc, dpc, reop, rmVars, scr>>
     ELSE \* stream.Rebalance on the timer goroutine (re-armed while a rebalance was in progress)
          /\ rpc["tmr"] = "idle"
          /\ RebalanceEnter("tmr", [timers EXCEPT ![i].st = "fired"])
          /\ Emit(<<>>)
          /\ UNCHANGED <<up, slog, fo, wire, store, info, cnt, obsvVars, offs, dirty, flag, rng, open, obsNil, active, cwc,
                         finClose, finEnd, rebalances, stopped, ctxs, tokC, tokE, waits, wpark, rlock, slock, cgen, mpc, dcwc,
                         opener, opc, opened, live, foleft, lpart, clo, spc, sv, dpc, reop, rmVars, scr, sinfo>>

-----------------------------------------------------------------------------
(* stream ends (observer.End l.273-282, stream.listenEnd l.190-220)                                   *)
EndEv(v, c) == [ev |-> "EndSent", vb |-> v, cause |-> c]

\* the server ends the stream of v with cause c ("closed" follows a CloseStream; "ok" is the clean end)
End(v, c) ==
  /\ UNCHANGED wind
  /\ UNCHANGED <<rmVars, scr, sinfo>>
  /\ up /\ ~Busy /\ v \in live /\ dpc[v] = "idle" /\ v \notin reop /\ wire[v] = <<>>
  \* (a stream that is already open may end while Open() is still opening the others)
  /\ (c # "closed" => EnvOK /\ cnt.ends < MaxEnds /\ c \in EndCauses /\ (open \/ (opc = "opening" /\ v \in opened)) /\ ~clo.on
                       /\ (open => ~balancing /\ mpc = "running"))
  /\ (c = "closed" => (clo.on /\ v \notin clo.left) \/ (obsNil /\ ~open))
  /\ cnt' = [cnt EXCEPT !.ends = IF c = "closed" THEN @ ELSE @ + 1]
  /\ live' = live \ {v}
  /\ fo' = [fo EXCEPT ![v] = IF c = "statechanged" THEN @ + 100 ELSE @]      \* a fail-over: the next stream is on a new branch
  /\ UNCHANGED <<up, slog, wire, store, info, obsvVars, offs, dirty, flag, rng, open, obsNil, balancing, cwc, finClose,
                 finEnd, rebalances, stopped, ctxs, timers, cur, rlock, slock, cgen, mpc, dcwc, opener, opc, opened, foleft, lpart,
                 clo, spc, sv, rpc, dpc>>
  /\ IF oendclosed[v] \/ obsNil
     THEN /\ Emit(<<EndEv(v, c)>>) /\ UNCHANGED <<active, tokC, tokE, waits, wpark, reop, rmVars, scr, sinfo>>
     ELSE IF ~cwc /\ c \in TransientCauses
     THEN \* go reopenStream(vb): the goroutine reaches client.OpenStream with the current position
          /\ reop' = reop \cup {v}
          /\ Emit(<<EndEv(v, c), [ev |-> "OpenReq", vb |-> v, off |-> offs[v], end |-> EndOf(v)]>>)
          /\ UNCHANGED <<active, tokC, tokE, waits, wpark>>
     ELSE LET p == IF active = 1 /\ ~finClose THEN Put("end", tokC, tokE, waits, wpark)
                   ELSE <<tokC, tokE, waits, wpark, FALSE>> IN
          /\ active' = active - 1
          /\ tokC' = p[1] /\ tokE' = p[2] /\ waits' = p[3] /\ wpark' = p[4]
          /\ Emit(<<EndEv(v, c)>>)
          /\ UNCHANGED reop

\* the re-open request of v is answered
\* a fail-over discards what the old branch had beyond r: events above r are gone, a snapshot that was open at r ends there,
\* later snapshots never existed; the new branch goes on from r with snapshots of its own (Gen)
Trunc(h, r) ==
  LET kept == SelectSeq(h, LAMBDA x : IF x.k = "mark" THEN x.s <= r ELSE x.q <= r) IN
  [i \in 1..Len(kept) |-> IF kept[i].k = "mark" /\ kept[i].e > r THEN [kept[i] EXCEPT !.e = r] ELSE kept[i]]
ReopenRet(v, res, r) ==
  /\ UNCHANGED wind
  /\ UNCHANGED <<rmVars, scr, sinfo>>
  /\ up /\ v \in reop /\ res \in {"ok", "rb"} /\ Prompt
  \* failing re-opens (1 s back-off, panic after 5) are explored by the C15 fault driver
  \* the node answers ROLLBACK(r) (the vBucket failed over and lost what it had above r): the same observer goes on
  /\ (res = "rb" => Rollbacks /\ EnvOK /\ offs[v] # NoOff /\ offs[v].seq > 0 /\ r <= offs[v].seq)
  /\ (res # "rb" => r = 0)
  /\ reop' = reop \ {v}
  /\ live' = live \cup {v}
  /\ ouuid' = [ouuid EXCEPT ![v] = fo[v]]
  /\ slog' = IF res = "rb" THEN [slog EXCEPT ![v] = Trunc(@, r)] ELSE slog
  /\ ocatch' = IF res = "rb" THEN [ocatch EXCEPT ![v] = offs[v].seq] ELSE ocatch
  /\ wire' = [wire EXCEPT ![v] = WireFrom(slog'[v], IF res = "rb" THEN r ELSE offs[v].seq, <<>>)]
  /\ Emit(<<OpenRetEv(v, TRUE, res = "rb", IF res = "rb" THEN offs[v].seq ELSE 0)>>)
  /\ UNCHANGED <<up, fo, store, info, cnt, osnap, oclosed, oendclosed, ocnt, strVars, synVars, mpc, dcwc, opener,
                 opc, opened, foleft, lpart, clo, spc, sv, rpc, dpc>>

\* a wait goroutine parked at wait.close / wait.end finishes (l.403-411); when it closes the stop
\* channel the main thread leaves its select and runs dcp.close up to its first gate
RECURSIVE RemoveFirst(_, _)
RemoveFirst(sq, k) == IF sq = <<>> THEN <<>> ELSE IF Head(sq) = k THEN Tail(sq) ELSE <<Head(sq)>> \o RemoveFirst(Tail(sq), k)
WaitFin(k) ==
  /\ UNCHANGED wind
  /\ up /\ k \in SeqToSet(wpark) /\ ~FocusBusy /\ ~LockHandoff /\ ~GateReady
  /\ wpark' = RemoveFirst(wpark, k)
  /\ finClose' = (IF k = "close" THEN TRUE ELSE finClose)
  /\ finEnd' = (IF k = "end" THEN TRUE ELSE finEnd)
  /\ UNCHANGED <<slog, fo, wire, store, info, cnt, osnap, ouuid, ocatch, oendclosed, ocnt, offs, dirty, flag, rng, open, obsNil,
                 active, balancing, rebalances, ctxs, tokC, tokE, waits, cur, rlock, slock, cgen, dcwc, opener, opc,
                 opened, live, foleft, lpart, rpc, dpc, reop, rmVars, scr, sinfo>>
  /\ IF balancing
     THEN /\ Emit(<<>>) /\ UNCHANGED <<up, mpc, stopped, spc, sv, cwc, oclosed, clo, timers>>
     ELSE IF stopped                                 \* close of a closed channel
     THEN /\ Die(<<>>) /\ UNCHANGED <<stopped, spc, sv, cwc, oclosed, clo, timers>>
     ELSE /\ stopped' = TRUE
          /\ IF mpc = "running" /\ ~clo.on
             THEN MainCloseBegin(<<[ev |-> "Stopped"]>>, dcwc)
             ELSE /\ Emit(<<[ev |-> "Stopped"]>>) /\ UNCHANGED <<up, mpc, spc, sv, cwc, oclosed, clo, timers>>

-----------------------------------------------------------------------------
(* metric.Collect (metric/collector.go l.55-268) called by a scrape thread; GET /states/offset alike               *)
\* Collect begins: stream closed (observers nil) => returns at once with nothing; else it asks for the high seqnos
Scrape ==
  /\ UNCHANGED wind
  /\ up /\ ~Busy /\ EnvOK /\ scr = "idle" /\ mpc \in {"running", "closed"} /\ cnt.saves + cnt.acks + cnt.notify < 99
  /\ IF obsNil THEN /\ Emit(<<[ev |-> "Scrape", closed |-> TRUE]>>) /\ UNCHANGED scr
     ELSE /\ scr' = "wait" /\ Emit(<<[ev |-> "SeqNosReq"]>>)
  /\ UNCHANGED <<envVars, obsvVars, strVars, synVars, mpc, dcwc, opener, opc, opened, live, foleft, lpart, clo, spc, sv, rpc, dpc, reop, sinfo, rmVars>>

ScrapeVal(low) ==
  LET hi(v) == IF v \in low THEN 0 ELSE HighOf(v)    \* (low: the vBuckets with a stale answer - a high seqno below the tracked position)
      lagOf(v) == IF offs[v] = NoOff THEN 0 ELSE IF hi(v) > offs[v].seq THEN hi(v) - offs[v].seq ELSE 0
      RECURSIVE Sum(_)
      Sum(S) == IF S = {} THEN 0 ELSE LET x == CHOOSE y \in S : TRUE IN lagOf(x) + Sum(S \ {x})
  IN [ev |-> "Scrape", closed |-> FALSE,
      pos |-> [v \in VB |-> IF offs[v] = NoOff THEN <<0 - 1, 0 - 1, 0 - 1>> ELSE <<offs[v].seq, offs[v].ss, offs[v].se>>], lag |-> [v \in VB |-> lagOf(v)], total |-> Sum(VB),
      cnt |-> ocnt, active |-> active, rebalances |-> rebalances, member |-> sinfo[1], totalm |-> sinfo[2],
      rlo |-> ChunkLo(sinfo[2], sinfo[1]), rhi |-> ChunkHi(sinfo[2], sinfo[1])]
\* the high seqnos arrive: the rest of Collect runs on what the stream holds NOW
ScrapeRet(low) ==
  /\ UNCHANGED wind
  /\ up /\ Prompt /\ scr = "wait"
  /\ scr' = "idle"
  /\ Emit(<<[SeqNosEvS(TRUE, TRUE) EXCEPT !.high = [v \in VB |-> IF v \in low THEN 0 ELSE @[v]]], ScrapeVal(low)>>)
  /\ UNCHANGED <<envVars, obsvVars, strVars, synVars, mpc, dcwc, opener, opc, opened, live, foleft, lpart, clo, spc, sv, rpc, dpc, reop, sinfo, rmVars>>

-----------------------------------------------------------------------------
Crash ==
  /\ UNCHANGED wind
  /\ up /\ EnvOK /\ cnt.crash < MaxCrash /\ mpc = "running" /\ ~Busy
  /\ up' = FALSE /\ mpc' = "off" /\ cnt' = [cnt EXCEPT !.crash = @ + 1]
  /\ Emit(<<[ev |-> "Crash"]>>)
  /\ UNCHANGED <<slog, fo, wire, store, info, obsvVars, strVars, synVars, dcwc, opener, opc, opened, live, foleft, lpart, clo, spc, sv,
                 rpc, dpc, reop, rmVars, scr, sinfo>>

\* the bucket is flushed / recreated while the process is down: the history of v is gone, its checkpoint is not
Flush(v) ==
  /\ ~up /\ EnvOK /\ mpc = "off" /\ cnt.fail < MaxFail /\ slog[v] # <<>>
  /\ slog' = [slog EXCEPT ![v] = <<>>]
  /\ cnt' = [cnt EXCEPT !.fail = @ + 1]
  /\ Emit(<<>>)
  /\ UNCHANGED <<up, fo, wire, store, info, obsvVars, strVars, synVars, thrVars>>

\* where every thread is parked after the step ("thread@gate", library goroutines by gate name)
OpenerAt(g) == IF opener = "main" THEN "main@" \o g ELSE "lib:" \o g
LibRb == Cardinality({u \in {"bus", "tmr"} : rpc[u] = "want"})
Parked ==
  (IF opc = "load" THEN {OpenerAt("md.Load")} ELSE {})
  \cup (IF opc = "seqnos" THEN {OpenerAt("GetVBucketSeqNos")} ELSE {})
  \cup (IF opc = "folog" THEN {"lib:GetFailOverLogs"} ELSE {})     \* the map's Range runs its callback on its own goroutine
  \cup (IF opc = "opening" THEN {"lib:OpenStream:" \o ToString(v) : v \in RangeSet \ opened} ELSE {})
  \cup {"lib:OpenStream:" \o ToString(v) : v \in reop}
  \cup {t \o "@save.prelock" : t \in {u \in SaveThreads : spc[u] = "want"}}
  \cup {t \o "@save.take" : t \in {u \in SaveThreads : spc[u] = "take"}}
  \cup {t \o "@md.Save" : t \in {u \in SaveThreads : spc[u] = "storing"}}
  \cup {t \o "@save.remark" : t \in {u \in SaveThreads : spc[u] = "remark"}}
  \cup (IF Held THEN {"acker@track"} ELSE {})
  \cup (IF opc = "cbend" THEN {"lib:cb.hold"} ELSE {})
  \cup {"lib:CloseStream:" \o ToString(v) : v \in (IF clo.on THEN clo.left ELSE {})}
  \cup (IF scr = "wait" THEN {"scr@GetVBucketSeqNos"} ELSE {})
  \cup (IF rpc["api"] = "want" THEN {"api@rb.prelock"} ELSE {})
  \cup (IF LibRb >= 1 THEN {"lib:rb.prelock"} ELSE {})
  \cup (IF LibRb >= 2 THEN {"lib:rb.prelock#2"} ELSE {})
  \cup {"d" \o ToString(v) \o "@consume" : v \in {w \in VB : dpc[w] # "idle"}}
  \cup (IF Len(wpark) >= 1 THEN {"lib:wait." \o wpark[1]} ELSE {})
  \cup (IF Len(wpark) >= 2 THEN {IF wpark[2] = wpark[1] THEN "lib:wait." \o wpark[2] \o "#2" ELSE "lib:wait." \o wpark[2]}
        ELSE {})

\* the wind-down begins: from now on the environment produces no new work (no events, acknowledgements, notifications,
\* ends, failures, Close() or crashes); what is pending completes; one last save flushes
StartWind ==
  /\ up /\ Prompt /\ wind = "no" /\ Len(hist) >= WindAt /\ mpc \in {"running", "closed", "finalsave", "closing"}
  /\ wind' = "on" /\ Emit(<<>>)
  /\ UNCHANGED <<envVars, obsvVars, strVars, synVars, mpc, dcwc, opener, opc, opened, live, foleft, lpart, clo, spc, sv, rpc, dpc, reop, rmVars, scr, sinfo>>

\* nothing is parked anywhere, no timer is armed: the run is over; the monitors check the end-of-run obligations
ArmedTimers == {i \in DOMAIN timers : timers[i].st = "armed"}
Quiesce ==
  /\ up /\ Prompt /\ wind \in {"on", "flushed"} /\ Parked = {} /\ ArmedTimers = {}
  /\ \A t \in SaveThreads : spc[t] = "idle"
  /\ (wind = "on" => mpc # "running")          \* a running client first does its flush save
  /\ wind' = "done" /\ Emit(<<[ev |-> "Quiesced"]>>)
  /\ UNCHANGED <<envVars, obsvVars, strVars, synVars, mpc, dcwc, opener, opc, opened, live, foleft, lpart, clo, spc, sv, rpc, dpc, reop, rmVars, scr, sinfo>>

-----------------------------------------------------------------------------
Step0(l) ==
  CASE l.a = "Boot"       -> Boot
    [] l.a = "LoadRet"    -> LoadRet(l.ok, l.part)
    [] l.a = "SeqNosRet"  -> SeqNosRet(l.ok)
    [] l.a = "SeqNosRetMiss" -> SeqNosRetMiss(l.vb)
    [] l.a = "FoLogRet"   -> FoLogRet(l.ok)
    [] l.a = "OpenRet"    -> OpenRet(l.vb, l.res, l.r)
    [] l.a = "Push"       -> Push(l.vb, l.x, l.hold)
    [] l.a = "ConsRet"    -> ConsRet(l.vb)
    [] l.a = "Ack"        -> Ack(l.i)
    [] l.a = "AckBegin"   -> AckBegin(l.i)
    [] l.a = "AckMark"    -> AckMark(l.i)
    [] l.a = "SaveStart"  -> SaveStart(l.t)
    [] l.a = "SaveLock"   -> SaveLock(l.t)
    [] l.a = "SaveAcquire" -> SaveAcquire(l.t)
    [] l.a = "SaveTake"   -> SaveTake(l.t)
    [] l.a = "StoreWrite" -> StoreWrite(l.t, l.vb)
    [] l.a = "SaveRet"    -> SaveRet(l.t, l.ok)
    [] l.a = "SaveRemark" -> SaveRemark(l.t)
    [] l.a = "CloseCall"  -> CloseCall
    [] l.a = "CloseRet"   -> CloseRet(l.vb)
    [] l.a = "CloseEmpty" -> CloseEmpty
    [] l.a = "Notify"     -> Notify(l.t, <<l.member, l.total>>)
    [] l.a = "RbLock"     -> RbLock(l.t)
    [] l.a = "RbWait"     -> RbWait(l.t)
    [] l.a = "RbAcquire"  -> RbAcquire(l.t)
    [] l.a = "CbRet"      -> CbRet
    [] l.a = "NotifyLate" -> NotifyLate
    [] l.a = "TimerFire"  -> TimerFire(l.i)
    [] l.a = "End"        -> End(l.vb, l.cause)
    [] l.a = "ReopenRet"  -> ReopenRet(l.vb, l.res, l.r)
    [] l.a = "WaitFin"    -> WaitFin(l.k)
    [] l.a = "Crash"      -> Crash
    [] l.a = "Flush"      -> Flush(l.vb)
    [] l.a = "GateOpen"   -> GateOpen(l.vb)
    [] l.a = "Report"     -> Report(l.vb, l.slot, l.uuid, l.seq)
    [] l.a = "Absent"     -> Absent(l.vb, l.slot)
    [] l.a = "RmSwitch"   -> RmSwitch(l.on)
    [] l.a = "Scrape"     -> Scrape
    [] l.a = "ScrapeRet"  -> ScrapeRet(l.low)
    [] l.a = "StartWind"  -> StartWind
    [] l.a = "Quiesce"    -> Quiesce
\* a callback whose wait at the rollback-mitigation gate is over goes on before anything else happens
\* ... and so does a save in read-only mode (the wrapped backend returns at once: no call leaves the library)
ROReady == ReadOnly /\ \E t \in SaveThreads : spc[t] = "storing"
HeldOK == {"AckMark", "SaveStart", "SaveLock", "SaveAcquire", "SaveTake", "StoreWrite", "SaveRet", "SaveRemark"}
Step(l) == (GateReady => l.a \in {"GateOpen", "Crash"}) /\ (ROReady => l.a \in {"SaveRet", "Crash"})
           /\ (Held => l.a \in HeldOK) /\ (opc = "cbend" => l.a \in {"CbRet", "Notify", "RbWait", "Crash"}) /\ Step0(l)

MaxCtx == 6
MaxTimers == 4
Life == MaxNotify > 0 \/ MaxEnds > 0 \/ AllowClose
Labels ==
  [a : {"Boot", "StartWind", "Quiesce"}]
  \cup (IF RM THEN [a : {"GateOpen"}, vb : VB] \cup [a : {"RmSwitch"}, on : BOOLEAN] \cup [a : {"Absent"}, vb : VB, slot : 2..Slots]
                   \cup [a : {"Report"}, vb : VB, slot : 1..Slots, uuid : RmUuids, seq : 0..MaxSeq] ELSE {})
  \cup (IF Scrapes THEN [a : {"Scrape"}] \cup [a : {"ScrapeRet"}, low : SUBSET VB] ELSE {})
  \cup (IF MaxCrash > 0 THEN [a : {"Crash"}] ELSE {})
  \cup (IF MaxCrash > 0 /\ MaxFail > 0 THEN [a : {"Flush"}, vb : VB] ELSE {})
  \cup [a : {"LoadRet"}, ok : IF MaxFail > 0 THEN BOOLEAN ELSE {TRUE}, part : IF MaxFail > 0 THEN BOOLEAN ELSE {FALSE}]
  \cup [a : {"SeqNosRet"}, ok : IF MaxFail > 0 THEN BOOLEAN ELSE {TRUE}]
  \cup (IF MaxFail > 0 /\ ~Finite /\ AutoReset = "earliest" THEN [a : {"SeqNosRetMiss"}, vb : VB] ELSE {})
  \cup (IF AutoReset = "latest" THEN [a : {"FoLogRet"}, ok : IF MaxFail > 0 THEN BOOLEAN ELSE {TRUE}] ELSE {})
  \cup [a : {"OpenRet"}, vb : VB, res : {"ok"}, r : {0}]
  \cup (IF MaxFail > 0 THEN [a : {"OpenRet"}, vb : VB, res : {"err"}, r : {0}] ELSE {})
  \cup (IF Rollbacks THEN [a : {"OpenRet"}, vb : VB, res : {"rb"}, r : 0..MaxSeq] ELSE {})
  \cup (IF Hold THEN [a : {"ConsRet"}, vb : VB] ELSE {})
  \cup (IF MaxAcks > 0 THEN [a : {"Ack"}, i : 1..MaxCtx] ELSE {})
  \cup (IF MaxAcks > 0 /\ AckSplit THEN [a : {"AckBegin", "AckMark"}, i : 1..MaxCtx] ELSE {})
  \cup [a : {"SaveStart"}, t : Savers]
  \cup [a : {"SaveLock", "SaveTake", "SaveAcquire"}, t : IF AutoCkpt THEN SaveThreads ELSE Savers]
  \cup [a : {"StoreWrite"}, t : IF AutoCkpt THEN SaveThreads ELSE Savers, vb : VB]
  \cup [a : {"SaveRet"}, t : IF AutoCkpt THEN SaveThreads ELSE Savers, ok : IF FailSaves THEN BOOLEAN ELSE {TRUE}]
  \cup (IF FailSaves THEN [a : {"SaveRemark"}, t : IF AutoCkpt THEN SaveThreads ELSE Savers] ELSE {})
  \cup (IF Life THEN [a : {"CloseEmpty"}] \cup [a : {"WaitFin"}, k : {"close", "end"}] \cup [a : {"CloseRet"}, vb : VB]
                     \cup [a : {"End"}, vb : VB, cause : EndCauses \cup {"closed"}] ELSE {})
  \cup (IF AllowClose THEN [a : {"CloseCall"}] ELSE {})
  \cup (IF AllowClose /\ MaxNotify > 0 THEN [a : {"NotifyLate"}] ELSE {})
  \cup (IF MaxNotify > 0 THEN [a : {"Notify"}, t : {"bus", "api"}, member : 1..NVB, total : 1..NVB]
                              \cup [a : {"RbLock"}, t : RbThreads] \cup [a : {"TimerFire"}, i : 1..MaxTimers] ELSE {})
  \cup (IF MaxNotify > 0 /\ HoldCb THEN [a : {"CbRet"}] \cup [a : {"RbWait", "RbAcquire"}, t : RbThreads] ELSE {})
  \cup (IF MaxEnds > 0 THEN [a : {"ReopenRet"}, vb : VB, res : {"ok"}, r : {0}] ELSE {})
  \cup (IF MaxEnds > 0 /\ Rollbacks THEN [a : {"ReopenRet"}, vb : VB, res : {"rb"}, r : 0..MaxSeq] ELSE {})

\* API-visible state, sampled after every step while the process is up (Stream.GetOffsets, IsOpen)
StateEvs == IF up' THEN <<[ev |-> "State", offsets |-> offs', open |-> open', active |-> active', thr |-> thr']>> ELSE <<>>

\* projection of the implementation state that the driver compares after every step
Post == [offsets |-> offs, dirty |-> SortedSeq(dirty), flag |-> flag, store |-> store, open |-> open,
         parked |-> IF up THEN Parked ELSE {}, up |-> up, active |-> active, rebalances |-> rebalances,
         stopped |-> stopped, thr |-> thr]

\* the label carries the event for Push: the environment's choice
PushLabels == {[a |-> "Push", vb |-> v, x |-> x, hold |-> h] : v \in live, x \in UNION {NextEvents(w) : w \in live},
                                                               h \in (IF Hold THEN BOOLEAN ELSE {FALSE})}

\* situations worth a regression schedule: the step with label l is taken in the current state
NewMarks(l) ==
  LET a == l.a
      storing == \E t \in SaveThreads : spc[t] = "storing"
      taking == \E t \in SaveThreads : spc[t] = "take"
      armed == cur > 0 /\ timers[cur].st = "armed"
  IN
  (IF a = "Notify" /\ opener = "timer" THEN {"notifyDuringReopen"} ELSE {})
  \cup (IF a = "ReopenRet" /\ l.res = "rb" THEN {"reopenRollback"} ELSE {})
  \cup (IF a = "Push" /\ l.x.k = "mark" /\ "reopenRollback" \in marks /\ osnap[l.vb] # NoSnap /\ l.x.e <= osnap[l.vb][2]
            /\ <<l.x.s, l.x.e>> # osnap[l.vb] THEN {"reopenRbOtherSnapshot"} ELSE {})
  \cup (IF a = "Push" /\ IsDoc(l.x) /\ "reopenRbOtherSnapshot" \in marks /\ (ocatch[l.vb] < 0 \/ l.x.q > ocatch[l.vb])
         THEN {"deliveredAfterReopenRollback"} ELSE {})
  \* after a rollback the first snapshot of the new branch begins at or below the catch-up mark and ends above it, and is not the
  \* snapshot the observer still holds from the old branch; then an event above the mark is delivered in it
  \cup (IF a = "Push" /\ l.x.k = "mark" /\ ocatch[l.vb] >= 0 /\ l.x.s <= ocatch[l.vb] /\ ocatch[l.vb] < l.x.e
            /\ osnap[l.vb] # NoSnap /\ <<l.x.s, l.x.e>> # osnap[l.vb] THEN {"rbStraddlingMarker"} ELSE {})
  \cup (IF a = "Push" /\ IsDoc(l.x) /\ "rbStraddlingMarker" \in marks /\ (ocatch[l.vb] < 0 \/ l.x.q > ocatch[l.vb])
         THEN {"deliveredAfterStraddlingMarker"} ELSE {})
  \cup (IF a = "End" /\ l.cause \in TransientCauses /\ opc = "opening" THEN {"transientEndWhileOpening"} ELSE {})
  \cup (IF a = "End" /\ l.cause \notin TransientCauses /\ l.cause # "closed" /\ opc = "opening" THEN {"finalEndWhileOpening"} ELSE {})
  \cup (IF a = "GateOpen" /\ ~oclosed[l.vb] /\ IsDoc(dwait[l.vb]) /\ ~dwait[l.vb].old /\ ~Reserved(dwait[l.vb]) THEN {"gatePassDoc"} ELSE {})
  \cup (IF a = "GateOpen" /\ ~oclosed[l.vb] /\ dwait[l.vb].k \in {"adv", "sys"} THEN {"gatePassNonDoc"} ELSE {})
  \cup (IF a = "GateOpen" /\ ~oclosed[l.vb] /\ dwait[l.vb].k = "mark" /\ dwait[l.vb].s > 0 THEN {"gatePassMarker"} ELSE {})
  \cup (IF a = "GateOpen" /\ oclosed[l.vb] /\ IsDoc(dwait[l.vb]) THEN {"gateCloseRelease"} ELSE {})
  \cup (IF a = "GateOpen" /\ ~oclosed[l.vb] /\ IsDoc(dwait[l.vb]) /\ "rmMismatch" \in marks THEN {"gatePassAfterMismatch"} ELSE {})
  \cup (IF a = "GateOpen" /\ ~oclosed[l.vb] /\ IsDoc(dwait[l.vb]) /\ \E i \in 1..Slots : rtab[l.vb][i].absent THEN {"gatePassAbsent"} ELSE {})
  \cup (IF a = "Report" /\ dwait[l.vb] # NoEvent /\ \E i \in 1..Slots : i # l.slot /\ rtab[l.vb][i].uuid \notin {0, l.uuid}
            /\ rtab[l.vb][i].seq >= GateSeq(dwait[l.vb]) /\ l.seq >= GateSeq(dwait[l.vb]) THEN {"rmMismatch"} ELSE {})
  \cup (IF a = "Report" /\ dwait[l.vb] # NoEvent /\ l.seq < rtab[l.vb][l.slot].seq THEN {"rmDecrease"} ELSE {})
  \cup (IF a = "GateOpen" /\ ~oclosed[l.vb] /\ IsDoc(dwait[l.vb]) /\ "rmDecrease" \in marks THEN {"gatePassAfterDecrease"} ELSE {})
  \cup (IF a = "SaveStart" /\ \E v \in VB : dwait[v] # NoEvent /\ dwait[v].k \in {"adv", "sys"} THEN {"saveWhileNonDocWaits"} ELSE {})
  \cup (IF a = "Notify" /\ clo.on THEN {"notifyDuringClose"} ELSE {})
  \cup (IF a = "Notify" /\ balancing /\ armed /\ ~clo.on /\ opc = "none" THEN {"notifyDuringDelay"} ELSE {})
  \cup (IF a = "Notify" /\ l.t = "api" /\ rpc["bus"] = "want" THEN {"apiWhileBusWaits"} ELSE {})
  \cup (IF a = "Ack" /\ storing THEN {"ackDuringStore"} ELSE {})
  \cup (IF a = "SaveLock" /\ spc[l.t] = "want" /\ taking THEN {"saverQueuedBeforeTake"} ELSE {})
  \cup (IF a = "Ack" /\ storing /\ "saverQueuedBeforeTake" \in marks /\ (\E u \in SaveThreads : spc[u] = "blocked") /\ l.i \in DOMAIN ctxs /\ ctxs[l.i].gen = cgen
            /\ (offs[ctxs[l.i].vb] = NoOff \/ offs[ctxs[l.i].vb].seq < ctxs[l.i].off.seq)
         THEN {"ackDuringStoreWhileSaverWaits"} ELSE {})
  \cup (IF a = "Push" /\ l.x.k \in {"sys", "adv"} /\ storing /\ (\E u \in SaveThreads : spc[u] = "blocked") THEN {"nonDocDuringStoreWhileSaverWaits"} ELSE {})
  \cup (IF a = "Ack" /\ taking THEN {"ackAtTake"} ELSE {})
  \cup (IF a = "Ack" /\ l.i \in DOMAIN ctxs /\ offs[ctxs[l.i].vb] # NoOff /\ offs[ctxs[l.i].vb].seq > ctxs[l.i].off.seq
         THEN {"ackBelowPosition"} ELSE {})
  \cup (IF a = "Ack" /\ l.i \in DOMAIN ctxs /\ offs[ctxs[l.i].vb] # NoOff /\ offs[ctxs[l.i].vb].seq > ctxs[l.i].off.seq
            /\ offs[ctxs[l.i].vb].uuid # ctxs[l.i].off.uuid /\ ctxs[l.i].gen = cgen THEN {"ackBelowAcrossBranch"} ELSE {})
  \cup (IF a = "Ack" /\ l.i \in DOMAIN ctxs /\ ~InRange(ctxs[l.i].vb) THEN {"ackOutOfRange"} ELSE {})
  \cup (IF a = "Ack" /\ l.i \in DOMAIN ctxs /\ ctxs[l.i].gen < cgen /\ open THEN {"staleAckNewSession"} ELSE {})
  \cup (IF a = "Ack" /\ l.i \in DOMAIN ctxs /\ ctxs[l.i].off.uuid # ouuid[ctxs[l.i].vb] /\ open /\ ctxs[l.i].gen = cgen
         THEN {"ackAcrossBranch"} ELSE {})
  \cup (IF a = "Push" /\ l.x.k \in {"sys", "adv"} /\ (storing \/ taking) THEN {"nonDocDuringSave"} ELSE {})
  \cup (IF a = "Push" /\ IsDoc(l.x) /\ ocatch[l.vb] = l.x.q /\ osnap[l.vb] # NoSnap /\ osnap[l.vb][1] = l.x.q THEN {"rbBoundary"} ELSE {})
  \cup (IF a = "Push" /\ IsDoc(l.x) /\ ocatch[l.vb] >= 0 /\ l.x.q > ocatch[l.vb] THEN {"rbPast"} ELSE {})
  \cup (IF a = "Push" /\ IsDoc(l.x) /\ l.x.old THEN {"oldEvent"} ELSE {})
  \cup (IF a = "Push" /\ IsDoc(l.x) /\ Reserved(l.x) THEN {"reservedKey"} ELSE {})
  \cup (IF a = "Push" /\ l.x.k = "mark" /\ osnap[l.vb] # NoSnap /\ \E i \in DOMAIN ctxs : ctxs[i].vb = l.vb /\ ctxs[i].gen = cgen
         THEN {"markerAfterDelivery"} ELSE {})
  \cup (IF a = "SaveRet" /\ ~l.ok THEN {"failedSave"} ELSE {})
  \cup (IF a = "SaveRet" /\ ~l.ok /\ spc["main"] = "blocked" THEN {"finalSaveBehindFailingSave"} ELSE {})
  \cup (IF a = "CloseCall" /\ \E t \in SaveThreads : spc[t] = "storing" /\ \E v \in sv[t].ddirty : sv[t].dump[v] # NoOff /\ v \notin sv[t].wr
                                                                         /\ (store[v] = NoOff \/ store[v].seq < sv[t].dump[v].seq)
         THEN {"closeWhileUnstoredDumpInFlight"} ELSE {})
  \cup (IF a = "SaveRet" /\ ~l.ok /\ spc["main"] = "blocked" /\ "closeWhileUnstoredDumpInFlight" \in marks
         THEN {"finalSaveBehindFailingUnstoredSave"} ELSE {})
  \cup (IF a = "SaveRet" /\ ~l.ok /\ \E u \in SaveThreads \ {l.t} : spc[u] = "blocked" THEN {"saveBehindFailingSave"} ELSE {})
  \cup (IF a = "SaveRet" /\ ~l.ok /\ spc[l.t] = "storing" /\ dirty \ sv[l.t].ddirty # {} THEN {"otherVbMarkedDuringFailingSave"} ELSE {})
  \cup (IF a = "End" /\ l.cause \in TransientCauses /\ offs[l.vb] # NoOff /\ osnap[l.vb] # NoSnap
            /\ <<offs[l.vb].ss, offs[l.vb].se>> # osnap[l.vb] /\ offs[l.vb].seq > 0 THEN {"transientAfterNewMarker"} ELSE {})
  \cup (IF a = "SaveLock" /\ spc[l.t] = "want" /\ sv[l.t].gen \in slock THEN {IF l.t = "main" THEN "finalSaveBlocked" ELSE "lockContention"} ELSE {})
  \cup (IF a = "SaveLock" /\ l.t = "main" /\ spc[l.t] = "want" /\ sv[l.t].gen \in slock /\ "closeMidSave" \in marks
         THEN {"finalSaveBlockedUnsaved"} ELSE {})
  \cup (IF a = "Crash" /\ \E t \in SaveThreads : spc[t] = "storing" /\ sv[t].wr # {} /\ sv[t].wr # Writable(t) THEN {"crashMidSave"} ELSE {})
  \cup (IF a = "CloseCall" /\ obsNil /\ balancing THEN {"closeDuringDelay"} ELSE {})
  \cup (IF a = "CloseCall" /\ \E t \in SaveThreads : spc[t] = "storing" /\ \E v \in VB : offs[v] # NoOff /\ sv[t].dump[v] # NoOff
                                                                         /\ offs[v].seq > sv[t].dump[v].seq
         THEN {"closeMidSave"} ELSE {})      \* progress acknowledged after the dump of the save in flight
  \cup (IF a = "CloseCall" /\ \E v \in VB : dpc[v] # "idle" THEN {"closeMidDelivery"} ELSE {})
  \cup (IF a = "CloseCall" /\ flag THEN {"closeWithUnsaved"} ELSE {})
  \cup (IF a = "RbWait" THEN {"rebalanceWhileCallbackHeld"} ELSE {})
  \cup (IF a = "NotifyLate" /\ mpc = "closing" THEN {"notifyWhileClosing"} ELSE {})
  \cup (IF a = "NotifyLate" /\ mpc = "closed" THEN {"notifyAfterClose"} ELSE {})
  \cup (IF a = "End" /\ l.cause \in TransientCauses /\ offs[l.vb] # NoOff /\ offs[l.vb].seq > 0 THEN {"transientAfterProgress"} ELSE {})
  \cup (IF a = "End" /\ l.cause \notin TransientCauses /\ l.cause # "closed" /\ reop # {} THEN {"finalEndWhileReopening"} ELSE {})
  \cup (IF a = "OpenRet" /\ l.res = "rb" THEN {"rollback"} ELSE {})
  \cup (IF a = "SaveTake" /\ dirty # {} /\ (\E j \in DOMAIN ctxs : ctxs[j].held /\ ctxs[j].vb \notin dirty
                                                     /\ (store[ctxs[j].vb] = NoOff \/ store[ctxs[j].vb].seq < ctxs[j].off.seq))
         THEN {"saveTookWhileAckHeld"} ELSE {})     \* (the save in flight does not write the held vBucket: only the mark can get it stored)
  \cup (IF a = "AckMark" /\ "saveTookWhileAckHeld" \in marks THEN {"markAfterTake"} ELSE {})
  \cup (IF a = "TimerFire" /\ l.i \in DOMAIN timers /\ timers[l.i].fn = "Rebalance" THEN {"rearmedTimer"} ELSE {})
  \cup (IF a = "Boot" /\ \E v \in VB : store[v] # NoOff /\ store[v].ss < store[v].seq /\ store[v].seq < store[v].se THEN {"resumeMidSnapshot"} ELSE {})
  \cup (IF a = "SeqNosRet" /\ l.ok /\ PartialLoad /\ ~Ahead THEN {"partialLoad"} ELSE {})
  \cup (IF a = "LoadRet" /\ l.ok /\ ~l.part /\ (\E v \in RangeSet : store[v] # NoOff) /\ (\E v \in RangeSet : store[v] = NoOff)
         THEN {"sessionWithPartialStore"} ELSE {})
  \cup (IF a = "LoadRet" /\ ~l.ok THEN {"loadFails"} ELSE {})
  \cup (IF a = "SeqNosRet" /\ ~l.ok THEN {"seqnosFails"} ELSE {})
  \cup (IF a = "SeqNosRet" /\ l.ok /\ Ahead THEN {"checkpointAhead"} ELSE {})
  \cup (IF a = "SeqNosRetMiss" /\ store[l.vb] # NoOff /\ store[l.vb].seq > 0 /\ ~Ahead /\ ~PartialLoad THEN {"seqnoMissingForCheckpointed"} ELSE {})
  \cup (IF a = "SeqNosRetMiss" /\ ~AheadM(l.vb) /\ ~PartialLoad THEN {"seqnoMissingHarmless"} ELSE {})
  \cup (IF a = "SeqNosRet" /\ l.ok /\ Ahead /\ ~PartialLoad THEN {"checkpointAheadFullLoad"} ELSE {})   \* (nothing else wrong with the start)
  \cup (IF a = "FoLogRet" /\ ~l.ok THEN {"failoverLogFails"} ELSE {})
  \cup (IF a = "OpenRet" /\ l.res = "err" /\ opened # {} THEN {"secondOpenFails"} ELSE {})
  \cup (IF a = "OpenRet" /\ l.res = "err" /\ opener = "timer" THEN {"reopenOpenFails"} ELSE {})

Next == \E l \in Labels \cup PushLabels :
          /\ Step(l)
          /\ marks' = IF Marking THEN marks \cup NewMarks(l) ELSE marks
          /\ obs' = Fold(obs, emitv' \o StateEvs)
          /\ hist' = IF Record THEN Append(hist, [l |-> l, evs |-> emitv' \o StateEvs, post |-> Post'])
                               ELSE Append(hist, l)
Spec == Init /\ [][Next]_vars

-----------------------------------------------------------------------------
C01 == NoViol(obs, "C01") /\ C01State(obs)
C02 == NoViol(obs, "C02")
C03 == NoViol(obs, "C03")
C04 == NoViol(obs, "C04")
C05 == NoViol(obs, "C05")
C06 == NoViol(obs, "C06")
C08 == NoViol(obs, "C08")
C11 == NoViol(obs, "C11")
C12 == NoViol(obs, "C12")
C13 == NoViol(obs, "C13")
C14 == NoViol(obs, "C14")
C15 == NoViol(obs, "C15")
C07 == NoViol(obs, "C07")
C16 == NoViol(obs, "C16")
\* the monitor's view of the store is the store
StoreAgrees == obs.store = store
\* in the delay phase of a rebalance (stream closed, AfterRebalanceStart emitted, re-open not begun) the timer the stream holds is armed
\* and its callback is the re-open, however the notifications fell: once the delay elapses the stream is re-opened
\* (the rig's "Stalled" report - Props.tla - can only come from code that is not a behaviour of this specification)
ReopenArmed == (up /\ obs.phase = "delay" /\ ~obs.closeCalled) =>
                  (cur \in DOMAIN timers /\ timers[cur].st = "armed" /\ timers[cur].fn = "rebalance")
=============================================================================
