-------------------------------- MODULE Core --------------------------------
(***************************************************************************)
(* Implementation-shaped specification of go-dcp's stream layer:           *)
(*   couchbase/observer.go   (per-vBucket observer)                        *)
(*   stream/stream.go        (offsets, dirty set, flag, Open/Close/...)    *)
(*   stream/checkpoint.go    (Load, multi-step Save)                       *)
(* One action = one thread running from the gate it is parked at to the    *)
(* next gate (a gate is a point where the test rig can hold the real code: *)
(* a call into the metadata store / the client / the consumer, or a vhook  *)
(* point).  Every action has a label; Step(l) dispatches on it, so a TLC   *)
(* behaviour is a schedule the Go driver can execute on the real code.     *)
(* Every action also says which observable events the real code emits      *)
(* while executing it (emit) - they drive the property monitor of Props.   *)
(***************************************************************************)
EXTENDS Props

CONSTANTS
  Hist,        \* [VB -> Seq(wire event)] : the server's history per vBucket (markers included)
  FoUuid,      \* [VB -> Nat] : vbUUID the server answers stream requests with
  Savers,      \* driver threads that call Save()/Commit(), e.g. {"p","c"}
  MaxSaves, MaxCrash, MaxAcks,
  AutoReset,   \* "earliest" | "latest"
  FailSaves,   \* BOOLEAN: the metadata store may reject a save
  Focus,       \* BOOLEAN: while a session is being opened nothing else is scheduled
  Record,      \* BOOLEAN: hist carries predictions (events, projected state) besides the labels
  Bugs         \* subset of {"F1","F7"}: model the code as it was before the corresponding fix: commit

VARIABLES
  up, ncrash, nsaves, nacks,
  wire, store,
  \* observer (per vb)
  osnap, ouuid, ocatch, oclosed, ocnt,
  \* stream
  offs, dirty, flag, rng, open, opened,
  ctxs,
  \* threads
  mpc, spc, sv, slock,
  \* observable events emitted by the last step; monitor; schedule with predictions
  emitv, obs, hist

envVars  == <<up, ncrash, nsaves, nacks, wire, store>>
obsvVars == <<osnap, ouuid, ocatch, oclosed, ocnt>>
strVars  == <<offs, dirty, flag, rng, open, opened, ctxs>>
thrVars  == <<mpc, spc, sv, slock>>
vars     == <<envVars, obsvVars, strVars, thrVars, emitv, obs, hist>>
view     == <<envVars, obsvVars, strVars, thrVars, obs>>

NoSnap == <<0 - 1, 0 - 1>>
Ev(k, q, s, e, key, old) == [k |-> k, q |-> q, s |-> s, e |-> e, key |-> key, old |-> old]

HighOf(v) == MaxOr({Hist[v][i].q : i \in DOMAIN Hist[v]}, 0)

\* what the server streams for a request that resumes at seqno q: everything above q,
\* each surviving event preceded by (a copy of) the marker of its snapshot
RECURSIVE WireFrom(_, _, _)
WireFrom(h, q, pendingMark) ==
  IF h = <<>> THEN <<>>
  ELSE LET x == Head(h) IN
       IF x.k = "mark" THEN WireFrom(Tail(h), q, <<x>>)
       ELSE IF x.q <= q THEN WireFrom(Tail(h), q, pendingMark)
       ELSE pendingMark \o <<x>> \o WireFrom(Tail(h), q, <<>>)

InRange(v) == rng[1] <= v /\ v <= rng[2]
RangeSet == {v \in VB : InRange(v)}

-----------------------------------------------------------------------------
SaverInit == [dump |-> [v \in VB |-> NoOff], ddirty |-> {}, wr |-> {},
              olive |-> TRUE, osnapm |-> [v \in VB |-> NoOff],
              dlive |-> TRUE, dsnapm |-> {}]

Init ==
  /\ up = FALSE /\ ncrash = 0 /\ nsaves = 0 /\ nacks = 0
  /\ wire = [v \in VB |-> <<>>]
  /\ store = [v \in VB |-> NoOff]
  /\ osnap = [v \in VB |-> NoSnap] /\ ouuid = [v \in VB |-> 0] /\ ocatch = [v \in VB |-> 0 - 1]
  /\ oclosed = [v \in VB |-> FALSE] /\ ocnt = [v \in VB |-> <<0, 0, 0>>]
  /\ offs = [v \in VB |-> NoOff] /\ dirty = {} /\ flag = FALSE /\ rng = <<1, NVB>>
  /\ open = FALSE /\ opened = {} /\ ctxs = <<>>
  /\ mpc = "off" /\ spc = [t \in Savers |-> "idle"] /\ sv = [t \in Savers |-> SaverInit] /\ slock = "free"
  /\ emitv = <<>> /\ obs = ObsInit /\ hist = <<>>

\* ---------------------------------------------------------------------------
\* every action says which observable events the real code emits while executing it
Emit(es) == emitv' = es
EmitS(es) == emitv' = es

Busy == Focus /\ mpc \notin {"idle", "off"}

\* ---------------------------------------------------------------------------
\* start-up : main thread runs stream.Open()
\* Boot: process starts, Open() runs to the metadata.Load gate (stream.go Open l.222-249, checkpoint.go Load l.116-120)
Boot ==
  /\ ~up /\ mpc = "off"
  /\ up' = TRUE /\ mpc' = "load"
  /\ rng' = <<1, NVB>> /\ opened' = {} /\ open' = FALSE
  /\ offs' = [v \in VB |-> NoOff] /\ dirty' = {} /\ flag' = FALSE /\ ctxs' = <<>>
  /\ osnap' = [v \in VB |-> NoSnap] /\ ouuid' = [v \in VB |-> 0] /\ ocatch' = [v \in VB |-> 0 - 1]
  /\ oclosed' = [v \in VB |-> FALSE] /\ ocnt' = [v \in VB |-> <<0, 0, 0>>]
  /\ spc' = [t \in Savers |-> "idle"] /\ sv' = [t \in Savers |-> SaverInit] /\ slock' = "free"
  /\ wire' = [v \in VB |-> <<>>]
  /\ Emit(<<[ev |-> "Boot"], [ev |-> "Callback", name |-> "BeforeStreamStart"],
            [ev |-> "Load", vbs |-> SortedSeq(VB)]>>)
  /\ UNCHANGED <<ncrash, nsaves, nacks, store>>

\* metadata.Load returns the stored documents; runs to the GetVBucketSeqNos gate (checkpoint.go l.120-128)
LoadRet ==
  /\ up /\ mpc = "load" /\ mpc' = "seqnos"
  /\ Emit(<<[ev |-> "SeqNosReq"]>>)
  /\ UNCHANGED <<envVars, obsvVars, strVars, spc, sv, slock>>

\* positions computed by checkpoint.Load (l.134-199)
LoadedOff(v) ==
  IF (\A w \in VB : store[w] = NoOff) /\ AutoReset = "latest"
  THEN Off(FoUuid[v], HighOf(v), HighOf(v), HighOf(v))
  ELSE IF store[v] = NoOff THEN ZeroOff ELSE store[v]
LatestBranch == (\A w \in VB : store[w] = NoOff) /\ AutoReset = "latest"

\* GetVBucketSeqNos returns; offsets are built; one goroutine per vb reaches client.OpenStream
SeqNosRet ==
  /\ up /\ mpc = "seqnos" /\ mpc' = "opening"
  /\ offs' = [v \in VB |-> LoadedOff(v)]
  /\ dirty' = IF LatestBranch THEN {v \in VB : HighOf(v) # 0} ELSE {}
  /\ flag' = (LatestBranch /\ \E v \in VB : HighOf(v) # 0)
  /\ Emit([v \in VB |-> [ev |-> "OpenReq", vb |-> v, off |-> LoadedOff(v), end |-> MAXSEQ]])
  /\ UNCHANGED <<envVars, obsvVars, rng, open, opened, ctxs, spc, sv, slock>>

\* the server accepts the stream request of v (client.go OpenStream callback: SetVbUUID)
OpenRet(v) ==
  /\ up /\ mpc = "opening" /\ v \in VB \ opened
  /\ opened' = opened \cup {v}
  /\ ouuid' = [ouuid EXCEPT ![v] = FoUuid[v]]
  /\ wire' = [wire EXCEPT ![v] = WireFrom(Hist[v], offs[v].seq, <<>>)]
  /\ UNCHANGED <<up, ncrash, nsaves, nacks, store, osnap, ocatch, oclosed, ocnt,
                 offs, dirty, flag, rng, ctxs, spc, sv, slock>>
  /\ IF opened' = VB
     THEN /\ mpc' = "idle" /\ open' = TRUE
          /\ EmitS(<<[ev |-> "OpenRet", vb |-> v, ok |-> TRUE, uuid |-> FoUuid[v], rollback |-> FALSE, f |-> 0],
                     [ev |-> "Callback", name |-> "AfterStreamStart"]>>)
     ELSE /\ UNCHANGED <<mpc, open>>
          /\ Emit(<<[ev |-> "OpenRet", vb |-> v, ok |-> TRUE, uuid |-> FoUuid[v], rollback |-> FALSE, f |-> 0]>>)

\* ---------------------------------------------------------------------------
\* data path : the dispatch goroutine of v hands the next wire event to the observer
Moves(v, f) == InRange(v) /\ ~(offs[v] # NoOff /\ offs[v].seq > f.seq)      \* setOffset l.88-93
TrackEvs(v, f) == IF Moves(v, f) THEN <<[ev |-> "Track", vb |-> v, off |-> f]>> ELSE <<>>
SetOD(v, f, mk) ==
  IF Moves(v, f)
  THEN /\ offs' = [offs EXCEPT ![v] = f]
       /\ dirty' = IF mk THEN dirty \cup {v} ELSE dirty
  ELSE UNCHANGED <<offs, dirty>>
\* the flag is raised together with the mark (before the fix of F7 only Ack raised it)
SetOffset(v, f, mk) ==
  /\ SetOD(v, f, mk)
  /\ flag' = IF Moves(v, f) /\ mk /\ "F7" \notin Bugs THEN TRUE ELSE flag

SentEv(v, x) == [ev |-> "Sent", vb |-> v, e |-> x]
PushedEv(v) == [ev |-> "Pushed", vb |-> v]
Bump(c, k) == IF k = "mut" THEN <<c[1] + 1, c[2], c[3]>>
              ELSE IF k = "del" THEN <<c[1], c[2] + 1, c[3]>> ELSE <<c[1], c[2], c[3] + 1>>

\* needCatchup (observer.go l.90-102): returns <<skip, catchup'>>
Catch(v, q) == IF ocatch[v] < 0 THEN <<FALSE, 0 - 1>>
               ELSE IF q >= ocatch[v] THEN <<q = ocatch[v], 0 - 1>>
               ELSE <<TRUE, ocatch[v]>>
InSnap(v, q) == osnap[v] # NoSnap /\ osnap[v][1] <= q /\ q <= osnap[v][2]

Die(es) ==   \* fail-stop: the process is gone
  /\ up' = FALSE /\ mpc' = "off"
  /\ Emit(es \o <<[ev |-> "Died"]>>)

Push(v) ==
  /\ up /\ ~Busy /\ v \in opened /\ wire[v] # <<>>
  /\ UNCHANGED <<ncrash, nsaves, nacks, store, ouuid, oclosed, rng, open, opened, spc, sv, slock>>
  /\ LET x == Head(wire[v])
         f == Off(ouuid[v], x.q, osnap[v][1], osnap[v][2])
     IN
     /\ wire' = [wire EXCEPT ![v] = Tail(@)]
     /\ CASE x.k = "mark" ->                       \* SnapshotMarker l.157-170
               /\ osnap' = [osnap EXCEPT ![v] = <<x.s, x.e>>]
               /\ UNCHANGED <<up, mpc, ocatch, ocnt, offs, dirty, flag, ctxs>>
               /\ EmitS(<<SentEv(v, x), PushedEv(v)>>)
          [] x.k = "adv" ->                        \* SeqNoAdvanced l.414-437 (control: no catch-up)
               LET g == Off(ouuid[v], x.q, x.q, x.q) IN
               /\ osnap' = [osnap EXCEPT ![v] = <<x.q, x.q>>]
               /\ UNCHANGED <<up, mpc, ocatch, ocnt, ctxs>>
               /\ IF oclosed[v] THEN UNCHANGED <<offs, dirty, flag>> /\ EmitS(<<SentEv(v, x), PushedEv(v)>>)
                  ELSE SetOffset(v, g, TRUE) /\ EmitS(<<SentEv(v, x)>> \o TrackEvs(v, g) \o <<PushedEv(v)>>)
          [] x.k = "sys" ->                        \* CreateCollection ... l.284-406
               LET c == Catch(v, x.q) IN
               /\ ocatch' = [ocatch EXCEPT ![v] = c[2]]
               /\ UNCHANGED <<osnap, ocnt, ctxs>>
               /\ IF c[1] THEN /\ UNCHANGED <<up, mpc, offs, dirty, flag>>
                               /\ EmitS(<<SentEv(v, x), PushedEv(v)>>)
                  ELSE IF ~InSnap(v, x.q) THEN UNCHANGED <<offs, dirty, flag>> /\ Die(<<SentEv(v, x)>>)
                  ELSE IF oclosed[v] THEN /\ UNCHANGED <<up, mpc, offs, dirty, flag>>
                                          /\ EmitS(<<SentEv(v, x), PushedEv(v)>>)
                  ELSE /\ SetOffset(v, f, TRUE)
                       /\ UNCHANGED <<up, mpc>>
                       /\ EmitS(<<SentEv(v, x)>> \o TrackEvs(v, f) \o <<PushedEv(v)>>)
          [] OTHER ->                              \* Mutation / Deletion / Expiration l.185-270
               LET c == Catch(v, x.q) IN
               /\ ocatch' = [ocatch EXCEPT ![v] = c[2]]
               /\ UNCHANGED osnap
               /\ IF c[1] \/ x.old
                  THEN /\ UNCHANGED <<up, mpc, offs, dirty, flag, ocnt, ctxs>>
                       /\ EmitS(<<SentEv(v, x), PushedEv(v)>>)
                  ELSE IF ~InSnap(v, x.q) THEN UNCHANGED <<offs, dirty, flag, ocnt, ctxs>> /\ Die(<<SentEv(v, x)>>)
                  ELSE /\ ocnt' = [ocnt EXCEPT ![v] = Bump(@, x.k)]
                       /\ UNCHANGED <<up, mpc>>
                       /\ IF oclosed[v]
                          THEN /\ UNCHANGED <<offs, dirty, flag, ctxs>>
                               /\ EmitS(<<SentEv(v, x), PushedEv(v)>>)
                          ELSE IF Reserved(x)       \* stream.go waitAndForward l.118-121
                          THEN /\ SetOffset(v, f, FALSE)
                               /\ UNCHANGED ctxs
                               /\ EmitS(<<SentEv(v, x)>> \o TrackEvs(v, f) \o <<PushedEv(v)>>)
                          ELSE /\ ctxs' = Append(ctxs, [vb |-> v, off |-> f])
                               /\ UNCHANGED <<offs, dirty, flag>>
                               /\ EmitS(<<SentEv(v, x),
                                          [ev |-> "Consume", vb |-> v, k |-> x.k, q |-> x.q, key |-> x.key, off |-> f],
                                          PushedEv(v)>>)

\* the consumer acknowledges the i-th context it was handed (stream.go l.128-131)
Ack(i) ==
  /\ up /\ ~Busy /\ i \in DOMAIN ctxs /\ nacks < MaxAcks
  /\ nacks' = nacks + 1
  /\ UNCHANGED <<up, ncrash, nsaves, wire, store, obsvVars, rng, open, opened, ctxs, thrVars>>
  /\ LET c == ctxs[i] IN
     /\ SetOD(c.vb, c.off, TRUE)
     /\ flag' = TRUE
     /\ EmitS(<<[ev |-> "Ack", vb |-> c.vb, off |-> c.off]>> \o TrackEvs(c.vb, c.off))

\* ---------------------------------------------------------------------------
\* checkpoint.Save (checkpoint.go) by driver thread t.
\*   Before the fix of F1 ("F1" \in Bugs) the protocol was
\*     read (offsets, dirtyOffsets, flag) -> flag down: return -> LOCK -> dump the captured maps ->
\*     metadata.Save -> on success UnmarkDirtyOffsets (flag down, NEW empty dirty map) -> unlock
\*   which wipes the mark of an acknowledgement that lands while metadata.Save is in flight.
\*   Since the fix it is
\*     LOCK -> read -> flag down: return -> UnmarkDirtyOffsets -> dump -> metadata.Save ->
\*     on failure MarkDirtyOffsets(dumped dirty set) -> unlock
SaveStart(t) ==
  /\ up /\ ~Busy /\ spc[t] = "idle" /\ nsaves < MaxSaves /\ mpc = "idle"
  /\ nsaves' = nsaves + 1
  /\ UNCHANGED <<up, ncrash, nacks, wire, store, obsvVars, strVars, mpc, slock>>
  /\ IF "F1" \in Bugs /\ ~flag
     THEN /\ UNCHANGED <<spc, sv>>
          /\ Emit(<<[ev |-> "SaveCall", t |-> t], [ev |-> "SaveRet", t |-> t]>>)
     ELSE /\ spc' = [spc EXCEPT ![t] = "want"]      \* parked at vhook "save.prelock"
          /\ sv' = [sv EXCEPT ![t] = SaverInit]
          /\ Emit(<<[ev |-> "SaveCall", t |-> t]>>)

SaveLock(t) ==
  /\ up /\ ~Busy /\ spc[t] = "want" /\ slock = "free"
  /\ UNCHANGED <<envVars, obsvVars, offs, rng, open, opened, ctxs, mpc>>
  /\ IF "F1" \in Bugs
     THEN LET om == IF sv[t].olive THEN offs ELSE sv[t].osnapm
              dm == IF sv[t].dlive THEN dirty ELSE sv[t].dsnapm
          IN /\ slock' = t /\ spc' = [spc EXCEPT ![t] = "storing"]
             /\ sv' = [sv EXCEPT ![t].dump = om, ![t].ddirty = dm, ![t].wr = {}]
             /\ UNCHANGED <<dirty, flag>>
             /\ Emit(<<[ev |-> "SaveBegin", t |-> t, dump |-> om, dirty |-> SortedSeq(dm)]>>)
     ELSE IF ~flag
     THEN /\ spc' = [spc EXCEPT ![t] = "idle"]
          /\ UNCHANGED <<slock, sv, dirty, flag>>
          /\ Emit(<<[ev |-> "SaveRet", t |-> t]>>)
     ELSE /\ slock' = t /\ spc' = [spc EXCEPT ![t] = "storing"]
          /\ sv' = [sv EXCEPT ![t].dump = offs, ![t].ddirty = dirty, ![t].wr = {}]
          /\ flag' = FALSE /\ dirty' = {}
          /\ Emit(<<[ev |-> "SaveBegin", t |-> t, dump |-> offs, dirty |-> SortedSeq(dirty)]>>)

\* the backend makes the checkpoint of one dirty vb durable (one write per dirty vb, any order)
StoreWrite(t, v) ==
  /\ up /\ spc[t] = "storing" /\ v \in sv[t].ddirty \ sv[t].wr /\ sv[t].dump[v] # NoOff
  /\ store' = [store EXCEPT ![v] = sv[t].dump[v]]
  /\ sv' = [sv EXCEPT ![t].wr = @ \cup {v}]
  /\ Emit(<<[ev |-> "StoreWrite", t |-> t, vb |-> v, off |-> sv[t].dump[v]]>>)
  /\ UNCHANGED <<up, ncrash, nsaves, nacks, wire, obsvVars, strVars, mpc, spc, slock>>

Writable(t) == {v \in sv[t].ddirty : sv[t].dump[v] # NoOff}

\* metadata.Save returns, the rest of Save runs, Save returns
SaveRet(t, ok) ==
  /\ up /\ spc[t] = "storing"
  /\ (ok => sv[t].wr = Writable(t))
  /\ (~ok => FailSaves)
  /\ spc' = [spc EXCEPT ![t] = "idle"]
  /\ slock' = "free"
  /\ UNCHANGED <<envVars, obsvVars, offs, rng, open, opened, ctxs, mpc>>
  /\ IF "F1" \in Bugs
     THEN IF ok
          THEN /\ flag' = FALSE /\ dirty' = {}
               \* savers that captured the old dirty map keep it
               /\ sv' = [u \in Savers |-> IF spc[u] = "want" /\ sv[u].dlive
                                          THEN [sv[u] EXCEPT !.dlive = FALSE, !.dsnapm = dirty] ELSE sv[u]]
          ELSE UNCHANGED <<flag, dirty, sv>>
     ELSE IF ok THEN UNCHANGED <<flag, dirty, sv>>
          ELSE /\ flag' = (flag \/ sv[t].ddirty # {}) /\ dirty' = dirty \cup sv[t].ddirty /\ UNCHANGED sv
  /\ EmitS(<<[ev |-> "SaveEnd", t |-> t, ok |-> ok], [ev |-> "SaveRet", t |-> t]>>)

\* ---------------------------------------------------------------------------
Crash ==
  /\ up /\ ncrash < MaxCrash /\ mpc = "idle"
  /\ up' = FALSE /\ ncrash' = ncrash + 1 /\ mpc' = "off"
  /\ Emit(<<[ev |-> "Crash"]>>)
  /\ UNCHANGED <<nsaves, nacks, wire, store, obsvVars, strVars, spc, sv, slock>>

\* ---------------------------------------------------------------------------
Step(l) ==
  CASE l.a = "Boot"       -> Boot
    [] l.a = "LoadRet"    -> LoadRet
    [] l.a = "SeqNosRet"  -> SeqNosRet
    [] l.a = "OpenRet"    -> OpenRet(l.vb)
    [] l.a = "Push"       -> Push(l.vb)
    [] l.a = "Ack"        -> Ack(l.i)
    [] l.a = "SaveStart"  -> SaveStart(l.t)
    [] l.a = "SaveLock"   -> SaveLock(l.t)
    [] l.a = "StoreWrite" -> StoreWrite(l.t, l.vb)
    [] l.a = "SaveRet"    -> SaveRet(l.t, l.ok)
    [] l.a = "Crash"      -> Crash

MaxCtx == 6
Labels ==
  [a : {"Boot", "LoadRet", "SeqNosRet", "Crash"}]
  \cup [a : {"OpenRet", "Push"}, vb : VB]
  \cup [a : {"Ack"}, i : 1..MaxCtx]
  \cup [a : {"SaveStart", "SaveLock"}, t : Savers]
  \cup [a : {"StoreWrite"}, t : Savers, vb : VB]
  \cup [a : {"SaveRet"}, t : Savers, ok : BOOLEAN]

\* API-visible state, sampled after every step while the process is up (Stream.GetOffsets, IsOpen)
StateEvs == IF up' THEN <<[ev |-> "State", offsets |-> offs', open |-> open']>> ELSE <<>>

\* where every thread is parked after the step ("thread@gate", library goroutines by gate name)
Parked ==
  (IF mpc = "load" THEN {"main@md.Load"} ELSE {})
  \cup (IF mpc = "seqnos" THEN {"main@GetVBucketSeqNos"} ELSE {})
  \cup (IF mpc = "opening" THEN {"lib:OpenStream:" \o ToString(v) : v \in VB \ opened} ELSE {})
  \cup {t \o "@save.prelock" : t \in {u \in Savers : spc[u] = "want"}}
  \cup {t \o "@md.Save" : t \in {u \in Savers : spc[u] = "storing"}}

\* projection of the implementation state that the driver compares after every step
Post == [offsets |-> offs, dirty |-> SortedSeq(dirty), flag |-> flag, store |-> store, open |-> open,
         parked |-> IF up THEN Parked ELSE {}, up |-> up]

Next == \E l \in Labels :
          /\ Step(l)
          /\ obs' = Fold(obs, emitv' \o StateEvs)
          /\ hist' = IF Record THEN Append(hist, [l |-> l, evs |-> emitv' \o StateEvs, post |-> Post'])
                               ELSE Append(hist, l)
Spec == Init /\ [][Next]_vars

-----------------------------------------------------------------------------
C01 == NoViol(obs, "C01") /\ C01State(obs)
C03 == NoViol(obs, "C03")
C04 == NoViol(obs, "C04")
C05 == NoViol(obs, "C05")
C06 == NoViol(obs, "C06")
C11 == NoViol(obs, "C11")
C14 == NoViol(obs, "C14")
\* the monitor's view of the store is the store
StoreAgrees == obs.store = store
=============================================================================
