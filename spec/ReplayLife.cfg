SPECIFICATION RSpec
CONSTANTS
  NVB = 2
  InitLog <- EmptyLog
  MaxSeq = 3
  Keys = {"user"}
  Kinds = {"mut"}
  OldEvents = FALSE
  BadEvents = FALSE
  FoUuid <- Fo10
  Savers = {"p"}
  MaxSaves = 5
  MaxCrash = 0
  MaxAcks = 5
  MaxGen = 4
  MaxNotify = 5
  MaxEnds = 6
  MaxFail = 0
  AutoReset = "earliest"
  Finite = FALSE
  AutoCkpt = TRUE
  Infos <- Infos2
  Info0 <- Info11
  EndCauses = {"socket", "statechanged", "ok"}
  Hold = FALSE
  AllowClose = TRUE
  Rollbacks = FALSE
  FailSaves = FALSE
  Focus = FALSE
  Record = TRUE
  ReadOnly = FALSE
  AckSplit = FALSE
  HoldCb = FALSE
  RM = FALSE
  Slots = 1
  RmUuids = {1, 2}
  RmMonotone = FALSE
  Scrapes = FALSE
  HookScrapes = FALSE
  Marking = FALSE
  WindAt = 0
  Gaps = {}
  Bugs = {}
INVARIANTS DumpSched
CHECK_DEADLOCK FALSE
