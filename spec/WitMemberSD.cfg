SPECIFICATION WSpec
CONSTANTS Inst = {1, 2, 3} NVB = 8 P = 4 D = 2 MaxEvents = 4 Settle = 9 Marking = TRUE Record = FALSE Target = "@TARGET@"
VIEW view
INVARIANTS WitnessInv
CHECK_DEADLOCK FALSE
