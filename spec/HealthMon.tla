------------------------------ MODULE HealthMon ------------------------------
(* C19 as a monitor over the observable events of the health checker (Start, Ping, PingRet, Died, StopCall, StopRet,
   Quiesced); used by HealthCheck.tla (model checking) and MonHealth.tla (events recorded from the real code). *)
EXTENDS Integers, Sequences, FiniteSets, TLC
\* ---- monitor over observable events ------------------------------------------------------------------
MonInit == [fails |-> 0, inping |-> FALSE, stopret |-> FALSE, stopcalled |-> FALSE, dead |-> FALSE, viol |-> {}]
V(m, c, msg) == IF c THEN m ELSE [m EXCEPT !.viol = @ \cup {msg}]
Apply(m, e) ==
  CASE e.ev = "Ping" ->
         V([m EXCEPT !.inping = TRUE], ~m.stopret, "a ping was issued after Stop() had returned")
    [] e.ev = "PingRet" ->
         [m EXCEPT !.inping = FALSE, !.fails = IF e.ok THEN 0 ELSE @ + 1]
    [] e.ev = "Died" ->
         V([m EXCEPT !.dead = TRUE], m.fails = 5, "the process was terminated without five consecutive failed pings in a round")
    [] e.ev = "StopCall" -> [m EXCEPT !.stopcalled = TRUE]
    [] e.ev = "StopRet" -> V([m EXCEPT !.stopret = TRUE, !.fails = 0], ~m.inping, "Stop() returned while a ping was in flight")
    [] e.ev = "Quiesced" ->
         V(V(m, m.fails < 5 \/ m.dead, "five consecutive pings of a round failed but the process went on"),
           ~m.stopcalled \/ m.stopret \/ m.dead, "Stop() did not return although no ping was pending")
    [] OTHER -> m
RECURSIVE Fold(_, _)
Fold(m, es) == IF es = <<>> THEN m ELSE Fold(Apply(m, Head(es)), Tail(es))

=============================================================================
