------------------------------- MODULE MCBase -------------------------------
(* constant expressions shared by the model-checking / simulation / replay front-ends of Core *)
EXTENDS Core
EmptyLog == [v \in VB |-> <<>>]
Fo10 == [v \in VB |-> 10 + v]
M(s, e) == Ev("mark", 0, s, e, "", FALSE)
Dc(k, q, key) == Ev(k, q, 0, 0, key, FALSE)
\* a bucket that already holds data: vb1 two mutations, other vbs one
OldLog == [v \in VB |-> IF v = 1 THEN <<M(1, 2), Dc("mut", 1, "user"), Dc("mut", 2, "user")>>
                        ELSE <<M(1, 1), Dc("mut", 1, "user")>>]
\* the fixed history of the save-protocol configurations: vb1 two user mutations in one snapshot;
\* vb2 a user mutation, a system event, then seqno-advanced (other vbs: one mutation)
HistA == [v \in VB |-> IF v = 1 THEN <<M(1, 2), Dc("mut", 1, "user"), Dc("mut", 2, "user")>>
                       ELSE IF v = 2 THEN <<M(1, 2), Dc("mut", 1, "user"), Dc("sys", 2, ""), Dc("adv", 3, "")>>
                       ELSE <<M(1, 1), Dc("mut", 1, "user")>>]
NoInfos == {<<1, 1>>}
Infos2 == {<<1, 1>>, <<1, 2>>, <<2, 2>>}
Info11 == <<1, 1>>
Info12 == <<1, 2>>
=============================================================================
