------------------------------- MODULE AsyncOp -------------------------------
(***************************************************************************)
(* C20 - the pattern every Couchbase call of the library uses              *)
(* (couchbase/async_op.go + the wrappers in client.go / doc_op.go):        *)
(*                                                                         *)
(*   opm := NewAsyncOp(ctx); ch := make(chan error, 1)                     *)
(*   op, err := agent.X(..., func(res, err){ ...; opm.Resolve(); ch<-err }) *)
(*   err = opm.Wait(op, err)   submit error, or select{ctx.Done: op.Cancel();*)
(*                             signal: }, then return ctx.Err()            *)
(*   if err != nil { return err } ; return <-ch                            *)
(*                                                                         *)
(* Three parties: the caller, gocbcore's completion (it invokes the        *)
(* callback exactly once - with the server's outcome, or with a cancel     *)
(* error from inside op.Cancel()), and the deadline of the context.        *)
(* SigCap / ResCap are the buffer sizes of the two channels (1 in the      *)
(* code): with 0 the completion would block for ever after a timeout.      *)
(***************************************************************************)
EXTENDS Integers, Sequences, FiniteSets, TLC
CONSTANTS SigCap, ResCap, Outcomes     \* Outcomes: what the server may answer, e.g. {"ok", "fail"}

VARIABLES
  caller,    \* "idle" | "waiting" (in select) | "reading" (<-ch) | "returned"
  sig, res,  \* channel contents: sig counts tokens; res is a sequence of outcomes
  cb,        \* "pending" | "running:<where>" | "done" : the completion callback
  cbout,     \* the outcome the callback carries
  ctxdone, cancelled, submitErr,
  result,    \* what the caller returned: "none" | "ok" | "fail" | "timeout" | "submit" | "cancel"
  served,    \* the outcome the server really produced ("none" if it never answered)
  emitv, hist

vars == <<caller, sig, res, cb, cbout, ctxdone, cancelled, submitErr, result, served, emitv, hist>>

Init == /\ caller = "idle" /\ sig = 0 /\ res = <<>> /\ cb = "pending" /\ cbout = "none" /\ ctxdone = FALSE
        /\ cancelled = FALSE /\ submitErr = FALSE /\ result = "none" /\ served = "none" /\ emitv = <<>> /\ hist = <<>>

\* the caller submits the operation; gocbcore may refuse it synchronously
Submit(ok) ==
  /\ caller = "idle"
  /\ IF ok THEN caller' = "waiting" /\ UNCHANGED <<submitErr, result>> /\ emitv' = <<[ev |-> "Submit", ok |-> TRUE]>>
     ELSE caller' = "returned" /\ submitErr' = TRUE /\ result' = "submit"
          /\ emitv' = <<[ev |-> "Submit", ok |-> FALSE], [ev |-> "Return", result |-> "submit"]>>
  /\ UNCHANGED <<sig, res, cb, cbout, ctxdone, cancelled, served>>

\* the callback, statement by statement: Resolve() then ch <- err ; each send blocks when its buffer is full and
\* nobody receives
CbStart(o) == /\ cb = "pending" /\ caller # "idle" /\ ~submitErr /\ o \in Outcomes
              /\ cb' = "resolve" /\ cbout' = o /\ served' = o
              /\ emitv' = <<[ev |-> "Served", outcome |-> o]>>
              /\ UNCHANGED <<caller, sig, res, ctxdone, cancelled, submitErr, result>>
CbResolve == /\ cb = "resolve" /\ (sig < SigCap \/ caller = "waiting")
             /\ IF caller = "waiting" /\ sig >= SigCap THEN sig' = sig ELSE sig' = sig + 1   \* (rendezvous when unbuffered)
             /\ cb' = "send" /\ emitv' = <<>>
             /\ UNCHANGED <<caller, res, cbout, ctxdone, cancelled, submitErr, result, served>>
CbSend == /\ cb = "send" /\ (Len(res) < ResCap \/ caller = "reading")
          /\ res' = Append(res, cbout) /\ cb' = "done" /\ emitv' = <<[ev |-> "CallbackDone"]>>
          /\ UNCHANGED <<caller, sig, cbout, ctxdone, cancelled, submitErr, result, served>>

\* the deadline of the context passes
Deadline == /\ ~ctxdone /\ ctxdone' = TRUE /\ emitv' = <<[ev |-> "Deadline"]>>
            /\ UNCHANGED <<caller, sig, res, cb, cbout, cancelled, submitErr, result, served>>

\* Wait: the select fires on the signal ...
WakeSignal == /\ caller = "waiting" /\ sig > 0
              /\ sig' = sig - 1
              /\ IF ctxdone THEN caller' = "returned" /\ result' = "timeout" /\ emitv' = <<[ev |-> "Return", result |-> "timeout"]>>
                 ELSE caller' = "reading" /\ UNCHANGED result /\ emitv' = <<>>
              /\ UNCHANGED <<res, cb, cbout, ctxdone, cancelled, submitErr, served>>
\* ... or on ctx.Done: op.Cancel() - gocbcore runs the callback with a cancel error from inside Cancel if the
\* operation has not completed yet - and Wait returns ctx.Err()
WakeDeadline == /\ caller = "waiting" /\ ctxdone
                /\ cancelled' = TRUE
                /\ IF cb = "pending" THEN cb' = "resolve" /\ cbout' = "cancel" ELSE UNCHANGED <<cb, cbout>>
                /\ caller' = "returned" /\ result' = "timeout"
                /\ emitv' = <<[ev |-> "Cancel"], [ev |-> "Return", result |-> "timeout"]>>
                /\ UNCHANGED <<sig, res, ctxdone, submitErr, served>>
\* return <-ch
Read == /\ caller = "reading" /\ res # <<>>
        /\ result' = Head(res) /\ res' = Tail(res) /\ caller' = "returned"
        /\ emitv' = <<[ev |-> "Return", result |-> Head(res)]>>
        /\ UNCHANGED <<sig, cb, cbout, ctxdone, cancelled, submitErr, served>>

Step(l) == CASE l.a = "Submit" -> Submit(l.ok) [] l.a = "CbStart" -> CbStart(l.o) [] l.a = "CbResolve" -> CbResolve
             [] l.a = "CbSend" -> CbSend [] l.a = "Deadline" -> Deadline [] l.a = "WakeSignal" -> WakeSignal
             [] l.a = "WakeDeadline" -> WakeDeadline [] l.a = "Read" -> Read
Labels == [a : {"Submit"}, ok : BOOLEAN] \cup [a : {"CbStart"}, o : Outcomes]
          \cup [a : {"CbResolve", "CbSend", "Deadline", "WakeSignal", "WakeDeadline", "Read"}]
L(l) == Step(l) /\ hist' = Append(hist, l)
Next == \E l \in Labels : L(l)
Fair == \A a \in {"CbResolve", "CbSend", "WakeSignal", "WakeDeadline", "Read", "Deadline"} : WF_vars(L([a |-> a]))
Spec == Init /\ [][Next]_vars /\ Fair

\* ---- C20 -------------------------------------------------------------------------------------------------------
\* success is never reported for an operation the server did not confirm; a reported failure is the server's
Truth == (result = "ok" => served = "ok") /\ (result = "fail" => served = "fail")
\* the completion never blocks: wherever the callback stands, its next statement is enabled or will be
NoBlock == /\ (cb = "resolve" => sig < SigCap \/ caller = "waiting")
           /\ (cb = "send" => Len(res) < ResCap \/ caller \in {"reading", "waiting"})
\* every call returns (the deadline is fair), and a callback that was started finishes
Returns == [](caller \in {"waiting", "reading"} => <>(caller = "returned"))
CallbackFinishes == [](cb \in {"resolve", "send"} => <>(cb = "done"))
=============================================================================
