SPECIFICATION SimSpec
CONSTANTS
  NVB = 1
  InitLog <- EmptyLog
  MaxSeq = 4
  Keys = {"user"}
  Kinds = {"mut", "del", "adv"}
  OldEvents = FALSE
  BadEvents = FALSE
  FoUuid <- Fo10
  Savers = {"p"}
  MaxSaves = 1
  MaxCrash = 0
  MaxAcks = 2
  MaxGen = 8
  MaxNotify = 0
  MaxEnds = 3
  MaxFail = 0
  AutoReset = "earliest"
  Finite = FALSE
  AutoCkpt = FALSE
  Infos <- NoInfos
  Info0 <- Info11
  EndCauses = {"statechanged", "socket"}
  Hold = FALSE
  AllowClose = FALSE
  Rollbacks = TRUE
  FailSaves = FALSE
  Focus = TRUE
  Record = TRUE
  ReadOnly = FALSE
  AckSplit = FALSE
  HoldCb = FALSE
  RM = FALSE
  Slots = 1
  RmUuids = {1, 2}
  RmMonotone = FALSE
  Scrapes = FALSE
  HookScrapes = FALSE
  Marking = FALSE
  WindAt = 30
  Gaps = {}
  Bugs = {}
  D = 44
INVARIANTS DumpSched
CHECK_DEADLOCK FALSE
