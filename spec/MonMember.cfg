SPECIFICATION MSpec
CONSTANTS Inst = {1, 2, 3, 4, 5, 6, 7, 8} NVB = 8
INVARIANT Done
CHECK_DEADLOCK FALSE
