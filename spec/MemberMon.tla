----------------------------- MODULE MemberMon -----------------------------
(* C10 as a monitor over what is observable of a group of library instances, whatever the membership mechanism:

     Joined(i)          instance i has started and registered (join order = order of these events)
     Gone(i)            instance i has stopped and the others can see it (heart-beat stale / expired, ping fails)
     Announce(i, n, t)  instance i published the numbering n/t on its event bus (what the stream acts on)
     Leader(i)          instance i became the group's leader (leader-assigned numbering: the leader is 1, the others follow
                        in join order)
     Crashed(i)         instance i ended with a panic
     Requested(i, n, t) / Info(i, n, t, lo, hi) / Settled   (dynamic membership) the orchestrator's request over the API, the
                        answer of the instance's vBucket discovery, the end of a quiet period
     Stable             the group has been left alone for the bounded number of monitor rounds (emitted by the
                        environment: every live instance completed `K` rounds that began after the last change)

   The properties: at Stable every live instance holds <<its position in join order, number of live instances>>
   (hence one size, pairwise distinct numbers 1..size, and with the partition rule of C09 one owner per vBucket);
   an announcement differs from the numbering in effect; a live instance does not crash.                         *)
EXTENDS Integers, Sequences, FiniteSets, TLC
CONSTANTS Inst, NVB

MonInit == [live |-> <<>>, lead |-> 0, cur |-> [i \in Inst |-> <<0, 0>>],
            req |-> [i \in Inst |-> <<0, 0>>],        \* (dynamic membership) the numbering the orchestrator requested last of instance i
            viol |-> {}]

Viol(o, msg) == [o EXCEPT !.viol = @ \cup {<<"C10", msg>>}]
Check(o, c, msg) == IF c THEN o ELSE Viol(o, msg)
Pos(s, x) == CHOOSE k \in 1..Len(s) : s[k] = x
Members(s) == {s[k] : k \in 1..Len(s)}
Without(s, x) == SelectSeq(s, LAMBDA y : y # x)

\* the partition rule (helpers.ChunkSlice, see Chunk.tla): vBuckets 0..NVB-1 in t contiguous chunks
ChunkLo(n, t) == LET q == NVB \div t  r == NVB % t IN (n - 1) * q + (IF n - 1 < r THEN n - 1 ELSE r)
ChunkHi(n, t) == ChunkLo(n + 1, t) - 1
\* the order member numbers follow: join order, a leader (if the mechanism has one and it is alive) first
Ranked(o) == IF o.lead # 0 /\ o.lead \in Members(o.live) THEN <<o.lead>> \o Without(o.live, o.lead) ELSE o.live
Owners(o, v) == {i \in Members(o.live) : o.cur[i][2] > 0 /\ o.cur[i][2] <= NVB /\ o.cur[i][1] >= 1 /\ o.cur[i][1] <= o.cur[i][2]
                                         /\ ChunkLo(o.cur[i][1], o.cur[i][2]) <= v /\ v <= ChunkHi(o.cur[i][1], o.cur[i][2])}

MonApply(o, e) ==
  CASE e.ev = "Joined"   -> [o EXCEPT !.live = Append(@, e.i), !.cur[e.i] = <<0, 0>>]
    [] e.ev = "Gone"     -> [o EXCEPT !.live = Without(@, e.i), !.lead = IF @ = e.i THEN 0 ELSE @]
    [] e.ev = "Leader"   -> [o EXCEPT !.lead = e.i]
    [] e.ev = "Announce" ->
         LET o1 == IF e.i \in Members(o.live)
                   THEN Check(o, <<e.n, e.t>> # o.cur[e.i], "a numbering equal to the one in effect was announced again")
                   ELSE o
         IN  [o1 EXCEPT !.cur[e.i] = <<e.n, e.t>>]
    \* dynamic membership: the orchestrator's request, what the instance's discovery then answers, the end of a quiet period
    [] e.ev = "Requested" -> [o EXCEPT !.req[e.i] = <<e.n, e.t>>]
    [] e.ev = "Info"     ->
         LET o1 == Check(o, o.req[e.i] # <<0, 0>> /\ <<e.n, e.t>> = o.req[e.i], "the membership answers with a numbering that is not the one requested last")
         IN  Check(o1, e.t > 0 /\ e.n >= 1 /\ e.n <= e.t /\ e.lo = ChunkLo(e.n, e.t) /\ e.hi = ChunkHi(e.n, e.t),
                   "the vBucket range is not the chunk of the numbering")
    [] e.ev = "Settled"  -> Check(o, \A i \in Members(o.live) : o.req[i] = <<0, 0>> \/ o.cur[i] = o.req[i],
                                  "a requested numbering that differs from the one in effect was not announced")
    [] e.ev = "Crashed"  -> IF e.i \in Members(o.live) THEN Viol(o, "a live instance crashed") ELSE o
    [] e.ev = "Stable"   ->
         LET n == Len(o.live)
             o1 == Check(o, \A i \in Members(o.live) : o.cur[i][2] = n, "live instances do not agree on the group size")
             o2 == Check(o1, \A i, j \in Members(o.live) : i # j => o.cur[i][1] # o.cur[j][1], "two live instances hold the same member number")
             o3 == Check(o2, \A i \in Members(o.live) : o.cur[i][1] = Pos(Ranked(o), i), "member numbers are not 1..size in join order")
             o4 == IF n > 0 /\ n <= NVB
                   THEN Check(o3, \A v \in 0..(NVB - 1) : Cardinality(Owners(o, v)) = 1, "a vBucket has no owner or several")
                   ELSE o3
         IN  o4
    [] OTHER -> o

RECURSIVE MonFold(_, _)
MonFold(o, es) == IF es = <<>> THEN o ELSE MonFold(MonApply(o, Head(es)), Tail(es))
NoC10(o) == o.viol = {}
=============================================================================
