SPECIFICATION Spec
CONSTANTS MaxKeys = 3
INVARIANTS Prop Emit
CHECK_DEADLOCK FALSE
