SPECIFICATION RSpec
CONSTANTS
  NVB = 2
  InitLog <- HistA
  MaxSeq = 3
  Keys = {"user"}
  Kinds = {"mut", "sys", "adv"}
  OldEvents = FALSE
  BadEvents = FALSE
  FoUuid <- Fo10
  Savers = {"p", "c"}
  MaxSaves = 10
  MaxCrash = 3
  MaxAcks = 10
  MaxGen = 4
  MaxNotify = 0
  MaxEnds = 0
  MaxFail = 0
  AutoReset = "earliest"
  Finite = FALSE
  AutoCkpt = FALSE
  Infos <- NoInfos
  Info0 <- Info11
  EndCauses = {}
  Hold = FALSE
  AllowClose = FALSE
  Rollbacks = FALSE
  FailSaves = TRUE
  Focus = TRUE
  Record = TRUE
  ReadOnly = FALSE
  AckSplit = TRUE
  HoldCb = FALSE
  RM = FALSE
  Slots = 1
  RmUuids = {1, 2}
  RmMonotone = FALSE
  Scrapes = FALSE
  HookScrapes = FALSE
  Marking = FALSE
  WindAt = 0
  Gaps = {}
  Bugs = {}
INVARIANTS DumpSched
CHECK_DEADLOCK FALSE
