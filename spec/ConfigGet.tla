------------------------------ MODULE ConfigGet ------------------------------
(***************************************************************************************************************)
(* C17, derived settings - config/dcp.go GetCouchbaseMetadata l.306-380, GetCouchbaseMembership l.193-249,        *)
(* GetKubernetesLeaderElector l.259-304 transcribed: a derived record starts from the main connection settings /  *)
(* the documented defaults and every key present in the override map replaces exactly its own field.             *)
(* TLC enumerates main settings x override maps with at most MaxKeys keys present (plus the full map), checks      *)
(* the property and prints one table row per state for replay into the real getters (MonConfig.tla re-checks).    *)
(* Durations in milliseconds, sizes in bytes; override values are the strings a YAML map would hold.              *)
(***************************************************************************************************************)
EXTENDS Integers, Sequences, FiniteSets, FiniteSetsExt, TLC, Json
CONSTANTS MaxKeys

\* ---- Couchbase metadata: field, override key, kind (inherits the main setting | documented default | required), default, override string, its meaning
MetaTable == <<
  <<"hosts", "hosts", "main", 0, "h1:8091,h2:8091", "h1:8091,h2:8091">>,
  <<"username", "username", "main", 0, "mu", "mu">>,
  <<"password", "password", "main", 0, "mp", "mp">>,
  <<"bucket", "bucket", "main", 0, "mb", "mb">>,
  <<"scope", "scope", "dflt", "_default", "ms", "ms">>,
  <<"collection", "collection", "dflt", "_default", "mc", "mc">>,
  <<"maxQueueSize", "maxQueueSize", "dflt", 2048, "77", 77>>,
  <<"connectionBufferSize", "connectionBufferSize", "dflt", 5242880, "2mb", 2097152>>,
  <<"connectionTimeout", "connectionTimeout", "dflt", 60000, "5s", 5000>>,
  <<"secureConnection", "secureConnection", "main", 0, "true", TRUE>>,
  <<"rootCAPath", "rootCAPath", "main", 0, "/ca", "/ca">> >>
\* the main settings the "main" fields inherit (two variants)
Mains == { [hosts |-> "a:8091", username |-> "u", password |-> "p", bucket |-> "b", secureConnection |-> FALSE, rootCAPath |-> ""],
           [hosts |-> "x:8091,y:8091", username |-> "u2", password |-> "p2", bucket |-> "b2", secureConnection |-> TRUE, rootCAPath |-> "/root.pem"] }

MembTable == <<
  <<"expirySeconds", "expirySeconds", "dflt", 120, "33", 33>>,
  <<"heartbeatInterval", "heartbeatInterval", "dflt", 10000, "3s", 3000>>,
  <<"heartbeatToleranceDuration", "heartbeatToleranceDuration", "dflt", 60000, "4s", 4000>>,
  <<"monitorInterval", "monitorInterval", "dflt", 30000, "6s", 6000>>,
  <<"timeout", "timeout", "dflt", 30000, "9s", 9000>> >>

ElectTable == <<
  <<"leaseLockName", "leaseLockName", "required", 0, "lock", "lock">>,
  <<"leaseLockNamespace", "leaseLockNamespace", "required", 0, "ns", "ns">>,
  <<"leaseDuration", "leaseDuration", "dflt", 8000, "20s", 20000>>,
  <<"renewDeadline", "renewDeadline", "dflt", 5000, "11s", 11000>>,
  <<"retryPeriod", "retryPeriod", "dflt", 1000, "2s", 2000>> >>

Keys(T) == {T[k][2] : k \in 1..Len(T)}
RowOf(T, key) == CHOOSE k \in 1..Len(T) : T[k][2] = key
Maps(T, must) == {S \cup must : S \in UNION {kSubset(k, Keys(T)) : k \in 0..MaxKeys}} \cup {Keys(T)}

VARIABLES which, main, present
vars == <<which, main, present>>

Init == \/ /\ which = "metadata" /\ main \in Mains /\ present \in Maps(MetaTable, {})
        \/ /\ which = "membership" /\ main \in {CHOOSE m \in Mains : TRUE} /\ present \in Maps(MembTable, {})
        \/ /\ which = "elector" /\ main \in {CHOOSE m \in Mains : TRUE} /\ present \in Maps(ElectTable, {"leaseLockName", "leaseLockNamespace"})
Next == UNCHANGED vars
Spec == Init /\ [][Next]_vars

TableOf(w) == IF w = "metadata" THEN MetaTable ELSE IF w = "membership" THEN MembTable ELSE ElectTable
\* the transcription: start from base, then one `if v, ok := map[key]; ok { field = parse(v) }` per key
Base(w, m, row) == IF row[3] = "main" THEN m[row[1]] ELSE row[4]
Derived(w, m, pres) == LET T == TableOf(w) IN [k \in 1..Len(T) |-> IF T[k][2] \in pres THEN T[k][6] ELSE Base(w, m, T[k])]
\* the property, field by field: overridden exactly when its key is present, otherwise inherited / default
Holds(w, m, pres, out) == LET T == TableOf(w) IN
  \A k \in 1..Len(T) : out[k] = IF T[k][2] \in pres THEN T[k][6] ELSE (IF T[k][3] = "main" THEN m[T[k][1]] ELSE T[k][4])
Prop == Holds(which, main, present, Derived(which, main, present))
Emit == PrintT(<<"GET", ToJson([which |-> which, main |-> main, present |-> present,
                                 map |-> [k \in present |-> TableOf(which)[RowOf(TableOf(which), k)][5]]])>>)
=============================================================================
