------------------------------ MODULE MemberDyn ------------------------------
(***************************************************************************************************************)
(* Membership type "dynamic": an orchestrator tells every instance its numbering over the instance's own API.  *)
(*                                                                                                               *)
(*   api/api.go info l.93-113      PUT /membership/info {memberNumber, totalMembers}: the API keeps the last      *)
(*                                 numbering it was told (s.membershipInfo) and publishes membershipChanged on    *)
(*                                 the instance's bus only when the new one differs (Model.IsChanged)             *)
(*   membership/dynamic_membership.go  listens on the bus; GetInfo() blocks until the first numbering has         *)
(*                                 arrived, afterwards it returns the last one delivered                          *)
(*   stream/vbucket_discovery.go   Get(): the instance's chunk of 0..NVB-1 for GetInfo()                          *)
(*                                                                                                               *)
(* Requests to one instance are separated by quiet periods (the property's quantifier): the bus delivers each    *)
(* publication on a goroutine of its own, two publications in flight are not ordered - Put is one step.          *)
(* The instances do not talk to each other: whether the group is consistent is the orchestrator's doing; the     *)
(* specification says what each instance does with what it is told, and - when the orchestrator has numbered the  *)
(* live instances 1..size - that every vBucket has exactly one owner (Stable).                                    *)
(***************************************************************************************************************)
EXTENDS MemberMon
CONSTANTS MaxPuts, Record
VARIABLES
  up,      \* [Inst -> BOOLEAN]
  order,   \* instances in start order
  api,     \* [Inst -> <<n, t>>]  api.membershipInfo (<<0, 0>>: none yet)
  dyn,     \* [Inst -> <<n, t>>]  dynamicMembership.info
  wait,    \* [Inst -> BOOLEAN]   a VBucketDiscovery.Get() call is blocked in GetInfo(): nothing was requested yet
  puts, said,
  emitv, mon, hist
vars == <<up, order, api, dyn, wait, puts, said, emitv, mon, hist>>
view == <<up, order, api, dyn, wait, puts, said, mon>>

Init == /\ up = [i \in Inst |-> FALSE] /\ order = <<>> /\ api = [i \in Inst |-> <<0, 0>>] /\ dyn = [i \in Inst |-> <<0, 0>>]
        /\ wait = [i \in Inst |-> FALSE] /\ puts = 0 /\ said = FALSE /\ emitv = <<>> /\ mon = MonInit /\ hist = <<>>

InfoEv(i, x) == [ev |-> "Info", i |-> i, n |-> x[1], t |-> x[2], lo |-> ChunkLo(x[1], x[2]), hi |-> ChunkHi(x[1], x[2])]

Start(i) ==
  /\ ~up[i] /\ up' = [up EXCEPT ![i] = TRUE] /\ order' = Append(order, i) /\ said' = FALSE
  /\ emitv' = <<[ev |-> "Joined", i |-> i]>>
  /\ UNCHANGED <<api, dyn, wait, puts>>

\* PUT /membership/info
Put(i, n, t) ==
  /\ up[i] /\ puts < MaxPuts /\ puts' = puts + 1 /\ said' = FALSE
  /\ LET x == <<n, t>>  changed == x # api[i] IN
     /\ api' = [api EXCEPT ![i] = x]
     /\ dyn' = IF changed THEN [dyn EXCEPT ![i] = x] ELSE dyn
     /\ wait' = IF changed THEN [wait EXCEPT ![i] = FALSE] ELSE wait
     /\ emitv' = <<[ev |-> "Requested", i |-> i, n |-> n, t |-> t]>>
                 \o (IF changed THEN <<[ev |-> "Announce", i |-> i, n |-> n, t |-> t]>> ELSE <<>>)
                 \o (IF changed /\ wait[i] THEN <<InfoEv(i, x)>> ELSE <<>>)          \* the blocked Get() returns
  /\ UNCHANGED <<up, order>>

\* VBucketDiscovery.Get()
Get(i) ==
  /\ up[i] /\ ~wait[i]
  /\ IF dyn[i] = <<0, 0>> THEN wait' = [wait EXCEPT ![i] = TRUE] /\ emitv' = <<>>
                          ELSE wait' = wait /\ emitv' = <<InfoEv(i, dyn[i])>>
  /\ UNCHANGED <<up, order, api, dyn, puts, said>>

\* every request has been served: what was requested is in effect
Settled ==
  /\ emitv' = <<[ev |-> "Settled"]>>
  /\ UNCHANGED <<up, order, api, dyn, wait, puts, said>>

\* the orchestrator has numbered the started instances 1..size in start order: the group is stable
Numbered == order # <<>> /\ \A k \in 1..Len(order) : api[order[k]] = <<k, Len(order)>>
Stable ==
  /\ Numbered /\ ~said /\ said' = TRUE
  /\ emitv' = <<[ev |-> "Stable"]>>
  /\ UNCHANGED <<up, order, api, dyn, wait, puts>>

Step(l) ==
  CASE l.a = "Start"   -> Start(l.i)
    [] l.a = "Put"     -> Put(l.i, l.n, l.t)
    [] l.a = "Get"     -> Get(l.i)
    [] l.a = "Settled" -> Settled
    [] l.a = "Stable"  -> Stable
MaxT == Cardinality(Inst)
Labels == [a : {"Start", "Get"}, i : Inst] \cup {[a |-> "Put", i |-> x[1], n |-> x[2], t |-> x[3]] : x \in {y \in Inst \X (1..MaxT) \X (1..MaxT) : y[2] <= y[3]}}
          \cup [a : {"Settled", "Stable"}]
Post == [up |-> TRUE, dyn |-> [i \in Inst |-> dyn[i]], wait |-> [i \in Inst |-> wait[i]]]
Next == \E l \in Labels :
          /\ Step(l)
          /\ mon' = MonFold(mon, emitv')
          /\ hist' = IF Record THEN Append(hist, [l |-> l, evs |-> emitv', post |-> Post']) ELSE hist
Spec == Init /\ [][Next]_vars
C10 == NoC10(mon)
\* the membership answers with what the API was told last; both agree
Agree == \A i \in Inst : dyn[i] = api[i]
=============================================================================
