------------------------------ MODULE MCDataQ ------------------------------
EXTENDS Core
M(s, e) == Ev("mark", 0, s, e, "", FALSE)
Dc(k, q, key) == Ev(k, q, 0, 0, key, FALSE)
\* vb1: two user mutations in one snapshot; vb2: user mutation, then a system event, then seqno-advanced
HistA == <<
  <<M(1, 2), Dc("mut", 1, "user"), Dc("mut", 2, "user")>>,
  <<M(1, 2), Dc("mut", 1, "user"), Dc("sys", 2, ""), Dc("adv", 3, "")>> >>
FoA == <<11, 12>>
=============================================================================
