SPECIFICATION Spec
CONSTANTS
  NVB = 1
  InitLog <- EmptyLog
  MaxSeq = 2
  Keys = {"user"}
  Kinds = {"mut", "adv"}
  OldEvents = FALSE
  BadEvents = FALSE
  FoUuid <- Fo10
  Savers = {"p"}
  MaxSaves = 1
  MaxCrash = 0
  MaxAcks = 0
  MaxGen = 2
  MaxNotify = 0
  MaxEnds = 0
  MaxFail = 0
  AutoReset = "earliest"
  Finite = FALSE
  AutoCkpt = FALSE
  Infos <- NoInfos
  Info0 <- Info11
  EndCauses = {}
  Hold = FALSE
  AllowClose = TRUE
  Rollbacks = FALSE
  FailSaves = FALSE
  Focus = TRUE
  Record = FALSE
  ReadOnly = FALSE
  AckSplit = FALSE
  HoldCb = FALSE
  RM = TRUE
  Slots = 2
  RmUuids = {1, 2}
  RmMonotone = FALSE
  Scrapes = FALSE
  HookScrapes = FALSE
  Marking = TRUE
  WindAt = 0
  Gaps = {}
  Bugs = {}
  Target = "@TARGET@"
  DeathOK = @DEATHOK@
VIEW view
INVARIANTS WitnessInv
CHECK_DEADLOCK FALSE
