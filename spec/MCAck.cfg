SPECIFICATION Spec
CONSTANTS
  NVB = 2
  InitLog <- HistA
  MaxSeq = 3
  Keys = {"user"}
  Kinds = {"mut", "sys", "adv"}
  OldEvents = FALSE
  BadEvents = FALSE
  FoUuid <- Fo10
  Savers = {"p", "c"}
  MaxSaves = 2
  MaxCrash = 0
  MaxAcks = 1
  MaxGen = 1
  MaxNotify = 0
  MaxEnds = 0
  MaxFail = 0
  AutoReset = "earliest"
  Finite = FALSE
  AutoCkpt = FALSE
  Infos <- NoInfos
  Info0 <- Info11
  EndCauses = {}
  Hold = FALSE
  AllowClose = FALSE
  Rollbacks = FALSE
  FailSaves = TRUE
  Focus = TRUE
  Record = FALSE
  ReadOnly = FALSE
  AckSplit = TRUE
  HoldCb = FALSE
  RM = FALSE
  Slots = 1
  RmUuids = {1, 2}
  RmMonotone = FALSE
  Scrapes = FALSE
  HookScrapes = FALSE
  Marking = FALSE
  WindAt = 0
  Gaps = {}
  Bugs = {}
VIEW view
INVARIANTS C07 C16 C01 C02 C03 C04 C05 C06 C08 C11 C12 C13 C14 C15 StoreAgrees ReopenArmed
CHECK_DEADLOCK FALSE
