SPECIFICATION Spec
CONSTANTS Inst = {1, 2, 3} NVB = 8 K = 1 MaxEvents = 4 Quiet = TRUE Marking = FALSE Record = FALSE
VIEW view
INVARIANTS C10 Agree NoCrash
CHECK_DEADLOCK FALSE
