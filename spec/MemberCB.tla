------------------------------ MODULE MemberCB ------------------------------
(***************************************************************************************************************)
(* couchbase/membership.go (membership type "couchbase") for a group of instances sharing one metadata bucket,  *)
(* at the granularity of the key-value requests each instance issues.                                            *)
(*                                                                                                               *)
(*   documents   index  <prefix><group>:instance:all  = { instance id -> cluster join time }   (CAS protected)   *)
(*               one heart-beat document per instance  { heartbeatTime, clusterJoinTime }, with an expiry        *)
(*   register()  l.62-106   CreatePath(index[id] = now, make the document), then create the heart-beat document  *)
(*   heartbeat() l.132-150  rewrite the own document with the current time                                       *)
(*   monitor()   l.160-243  Get(index); Get every listed instance document (missing or stale ones are dropped);  *)
(*               if the list differs from the one seen last: CAS-rewrite the index with it, on success           *)
(*               rebalance(): own position in the list (sorted by join time) = member number, length = group     *)
(*               size, published on the bus when it differs from the numbering in effect; a CAS mismatch runs    *)
(*               monitor() again; not finding itself in the list is a panic                                      *)
(*                                                                                                               *)
(* Time: the code compares time.Now() with the heartbeatTime stored in a document. The model (and the simulated  *)
(* server of the rig) ages *documents* instead of moving a clock: Age(i) makes the document of a stopped instance *)
(* older than heartbeatInterval + tolerance, Expire(i) removes it (its TTL ran out). A running instance's         *)
(* document is always fresh (it heart-beats in time; an instance that does not is, for the others, a dead one).   *)
(***************************************************************************************************************)
EXTENDS MemberMon
CONSTANTS K,          \* monitor rounds every live instance completes before the group counts as stable
          MaxEvents,  \* joins + deaths
          Quiet,      \* BOOLEAN: joins, deaths, ageing happen only while no monitor round is in flight
          Marking,    \* BOOLEAN: record in marks the interesting situations a behaviour goes through (bin/mkwitness)
          Record

VARIABLES
  index,     \* set of instance ids in the index document
  cas,       \* its CAS
  docs,      \* [Inst -> "none" | "fresh" | "stale"] the heart-beat documents
  st,        \* [Inst -> "off" | "up" | "dead" | "crashed"]
  order,     \* instances in join order (cluster join times are strictly increasing)
  last,      \* [Inst -> Seq(Inst)] lastActiveInstances
  info,      \* [Inst -> <<n, t>>]  numbering in effect at the instance (h.info)
  pc,        \* [Inst -> "idle" | "got" (index read, instance reads in flight) | "read" (CAS write in flight) | "retry"]
  snap, snapCas, filt,
  rounds,    \* [Inst -> 0..K] rounds completed since the last change that began after it
  counts,    \* [Inst -> BOOLEAN] the round in flight began after the last change
  events, announced,
  marks, emitv, mon, hist

vars == <<index, cas, docs, st, order, last, info, pc, snap, snapCas, filt, rounds, counts, events, announced, marks, emitv, mon, hist>>
view == <<index, cas, docs, st, order, last, info, pc, snap, snapCas, filt, rounds, counts, events, announced, marks, mon>>
core == <<index, cas, docs, st, order, last, info, pc, snap, snapCas, filt, rounds, counts, events, announced>>

Live == {i \in Inst : st[i] = "up"}
SortJ(S) == SelectSeq(order, LAMBDA x : x \in S)
Idle == \A i \in Inst : pc[i] = "idle"
QuietOK == Quiet => Idle
Visible == \A i \in Inst : st[i] = "dead" => docs[i] # "fresh"
Settled == Idle /\ Visible /\ \A i \in Live : rounds[i] >= K

Init == /\ index = {} /\ cas = 0 /\ docs = [i \in Inst |-> "none"] /\ st = [i \in Inst |-> "off"] /\ order = <<>>
        /\ last = [i \in Inst |-> <<>>] /\ info = [i \in Inst |-> <<0, 0>>] /\ pc = [i \in Inst |-> "idle"]
        /\ snap = [i \in Inst |-> {}] /\ snapCas = [i \in Inst |-> 0] /\ filt = [i \in Inst |-> <<>>]
        /\ rounds = [i \in Inst |-> 0] /\ counts = [i \in Inst |-> FALSE] /\ events = 0 /\ announced = FALSE
        /\ marks = {} /\ emitv = <<>> /\ mon = MonInit /\ hist = <<>>

Changed == /\ rounds' = [i \in Inst |-> 0] /\ counts' = [i \in Inst |-> FALSE] /\ announced' = FALSE

\* NewCBMembership: register() (both key-value steps, no other instance in between: joins are separated by quiet periods)
Join(i) ==
  /\ st[i] = "off" /\ events < MaxEvents /\ QuietOK /\ events' = events + 1
  /\ order' = Append(order, i) /\ index' = index \cup {i} /\ cas' = cas + 1
  /\ docs' = [docs EXCEPT ![i] = "fresh"] /\ st' = [st EXCEPT ![i] = "up"]
  /\ Changed /\ emitv' = <<[ev |-> "Joined", i |-> i]>>
  /\ UNCHANGED <<last, info, pc, snap, snapCas, filt>>

\* the instance stops (graceful Close() or silent death: neither removes anything from the bucket)
Die(i) ==
  /\ st[i] = "up" /\ pc[i] = "idle" /\ events < MaxEvents /\ QuietOK /\ events' = events + 1
  /\ st' = [st EXCEPT ![i] = "dead"] /\ emitv' = <<[ev |-> "Died", i |-> i]>>
  /\ UNCHANGED <<index, cas, docs, order, last, info, pc, snap, snapCas, filt, rounds, counts, announced>>

\* its last heart-beat becomes older than heartbeatInterval + tolerance
Age(i) ==
  /\ st[i] = "dead" /\ docs[i] = "fresh" /\ QuietOK
  /\ docs' = [docs EXCEPT ![i] = "stale"] /\ Changed /\ emitv' = <<[ev |-> "Gone", i |-> i]>>
  /\ UNCHANGED <<index, cas, st, order, last, info, pc, snap, snapCas, filt, events>>

\* its heart-beat document expires
Expire(i) ==
  /\ st[i] = "dead" /\ docs[i] # "none" /\ QuietOK
  /\ docs' = [docs EXCEPT ![i] = "none"]
  /\ IF docs[i] = "fresh" THEN Changed /\ emitv' = <<[ev |-> "Gone", i |-> i]>>
                          ELSE UNCHANGED <<rounds, counts, announced>> /\ emitv' = <<>>
  /\ UNCHANGED <<index, cas, st, order, last, info, pc, snap, snapCas, filt, events>>

Heartbeat(i) ==
  /\ st[i] = "up" /\ emitv' = <<>>
  /\ UNCHANGED core

\* monitor(): Get(index)
MonGet(i) ==
  /\ st[i] = "up" /\ pc[i] \in {"idle", "retry"}
  /\ snap' = [snap EXCEPT ![i] = index] /\ snapCas' = [snapCas EXCEPT ![i] = cas] /\ pc' = [pc EXCEPT ![i] = "got"]
  /\ counts' = IF pc[i] = "idle" THEN [counts EXCEPT ![i] = TRUE] ELSE counts
  /\ emitv' = <<>>
  /\ UNCHANGED <<index, cas, docs, st, order, last, info, filt, rounds, events, announced>>

RoundDone(i) == rounds' = [rounds EXCEPT ![i] = IF counts[i] /\ @ < K THEN @ + 1 ELSE @]

\* ... Get of every listed instance document (issued together), filter, compare with the list seen last
MonDocs(i) ==
  /\ st[i] = "up" /\ pc[i] = "got"
  /\ LET f == SortJ({x \in snap[i] : docs[x] = "fresh"}) IN
       /\ filt' = [filt EXCEPT ![i] = f]
       /\ IF f = last[i] THEN pc' = [pc EXCEPT ![i] = "idle"] /\ RoundDone(i)
                         ELSE pc' = [pc EXCEPT ![i] = "read"] /\ UNCHANGED rounds
  /\ emitv' = <<>>
  /\ UNCHANGED <<index, cas, docs, st, order, last, info, snap, snapCas, counts, events, announced>>

\* ... CAS rewrite of the index; rebalance() on success, monitor() again on a mismatch
MonCas(i) ==
  /\ st[i] = "up" /\ pc[i] = "read"
  /\ IF snapCas[i] # cas
     THEN /\ pc' = [pc EXCEPT ![i] = "retry"] /\ emitv' = <<>>
          /\ UNCHANGED <<index, cas, st, last, info, rounds, announced>>
     ELSE /\ index' = Members(filt[i]) /\ cas' = cas + 1
          /\ IF i \in Members(filt[i])
             THEN LET nw == <<Pos(filt[i], i), Len(filt[i])>> IN
                  /\ info' = [info EXCEPT ![i] = nw] /\ last' = [last EXCEPT ![i] = filt[i]]
                  /\ emitv' = IF nw # info[i] THEN <<[ev |-> "Announce", i |-> i, n |-> nw[1], t |-> nw[2]]>> ELSE <<>>
                  /\ pc' = [pc EXCEPT ![i] = "idle"] /\ RoundDone(i) /\ UNCHANGED <<st, announced>>
             ELSE /\ st' = [st EXCEPT ![i] = "crashed"] /\ pc' = [pc EXCEPT ![i] = "idle"]      \* "cant find self in cluster"
                  /\ emitv' = <<[ev |-> "Crashed", i |-> i]>> /\ UNCHANGED <<info, last, rounds, announced>>
  /\ UNCHANGED <<docs, order, snap, snapCas, filt, counts, events>>

\* the environment's statement that the group was left alone long enough
Stable ==
  /\ Settled /\ Live # {} /\ ~announced /\ announced' = TRUE
  /\ emitv' = <<[ev |-> "Stable"]>>
  /\ UNCHANGED <<index, cas, docs, st, order, last, info, pc, snap, snapCas, filt, rounds, counts, events>>

Step(l) ==
  CASE l.a = "Join"      -> Join(l.i)
    [] l.a = "Die"       -> Die(l.i)
    [] l.a = "Age"       -> Age(l.i)
    [] l.a = "Expire"    -> Expire(l.i)
    [] l.a = "Heartbeat" -> Heartbeat(l.i)
    [] l.a = "MonGet"    -> MonGet(l.i)
    [] l.a = "MonDocs"   -> MonDocs(l.i)
    [] l.a = "MonCas"    -> MonCas(l.i)
    [] l.a = "Stable"    -> Stable
Labels == [a : {"Join", "Die", "Age", "Expire", "Heartbeat", "MonGet", "MonDocs", "MonCas"}, i : Inst] \cup [a : {"Stable"}]

DocState(i) == docs[i]
Post == [up |-> TRUE, index |-> SortJ(index), docs |-> [i \in Inst |-> docs[i]], pc |-> [i \in Inst |-> pc[i]], st |-> [i \in Inst |-> st[i]]]

\* situations worth a regression schedule (evaluated in the state before the step)
NewMarks(l) ==
  LET i == l.i  f == SortJ({x \in snap[i] : docs[x] = "fresh"}) IN
  (IF l.a = "MonDocs" /\ f # last[i] /\ Len(f) = Len(last[i]) /\ last[i] # <<>> THEN {"sameSizeOtherMembers"} ELSE {})
  \cup (IF l.a = "MonCas" /\ snapCas[i] # cas THEN {"casRetry"} ELSE {})
  \cup (IF l.a = "MonCas" /\ snapCas[i] # cas /\ "casRetry" \in marks THEN {"casRetryTwice"} ELSE {})
  \cup (IF l.a = "Expire" /\ docs[i] = "fresh" THEN {"expireFresh"} ELSE {})
  \cup (IF l.a = "Expire" /\ docs[i] = "stale" THEN {"expireAfterAge"} ELSE {})
  \cup (IF l.a = "Join" /\ \E x \in Inst : st[x] = "dead" /\ x \in index THEN {"joinBeforeDeadDropped"} ELSE {})
  \cup (IF l.a = "MonCas" /\ snapCas[i] = cas /\ i \in Members(filt[i]) /\ info[i] # <<0, 0>>
            /\ Pos(filt[i], i) < info[i][1] THEN {"numberDecreases"} ELSE {})
  \cup (IF l.a = "MonCas" /\ snapCas[i] = cas /\ i \in Members(filt[i]) /\ <<Pos(filt[i], i), Len(filt[i])>> = info[i] THEN {"rewriteSameNumbering"} ELSE {})
  \cup (IF l.a = "Die" /\ order # <<>> /\ order[1] = i THEN {"firstDies"} ELSE {})
  \cup (IF l.a = "Stable" /\ "firstDies" \in marks /\ Cardinality(Live) >= 2 THEN {"stableAfterFirstDied"} ELSE {})
  \cup (IF l.a = "Stable" /\ Cardinality(Live) = Cardinality(Inst) THEN {"stableFull"} ELSE {})

Next == \E l \in Labels :
          /\ Step(l)
          /\ marks' = IF Marking THEN marks \cup NewMarks(l @@ [i |-> 1]) ELSE marks
          /\ mon' = MonFold(mon, emitv')
          /\ hist' = IF Record THEN Append(hist, [l |-> l, evs |-> emitv', post |-> Post']) ELSE hist
Spec == Init /\ [][Next]_vars
\* every round terminates and rounds keep being run: the group becomes stable (admission / drop within K rounds)
Fair == \A i \in Inst : WF_vars(\E l \in {x \in Labels : x.a \in {"MonGet", "MonDocs", "MonCas"} /\ x.i = i} : Step(l) /\ mon' = MonFold(mon, emitv') /\ hist' = hist /\ marks' = marks)
LiveSpec == Spec /\ Fair

C10 == NoC10(mon)
\* agreement as a plain state predicate, independent of the monitor
Agree == Settled => \A i \in Live : info[i] = <<Pos(SortJ(Live), i), Cardinality(Live)>>
NoCrash == \A i \in Inst : st[i] # "crashed"
Converged == \A i \in Live : info[i] = <<Pos(SortJ(Live), i), Cardinality(Live)>>
Converges == <>[](Converged \/ ~Visible)
=============================================================================
