------------------------------ MODULE SimDataAsIs ------------------------------
(* simulation front-end of Core: random behaviours of fixed length, printed as JSON schedules *)
EXTENDS MCData, Json
CONSTANT D
Nop == /\ UNCHANGED <<envVars, obsvVars, strVars, thrVars, emitv, obs>>
       /\ hist' = Append(hist, [l |-> [a |-> "Nop"]])
SimNext == Next \/ Nop
SimSpec == Init /\ [][SimNext]_vars
CfgJson == [NVB |-> NVB, Hist |-> Hist, FoUuid |-> FoUuid, AutoReset |-> AutoReset]
DumpSched == (Len(hist) = D) => PrintT(<<"SCHED", ToJson([cfg |-> CfgJson, steps |-> hist])>>)
=============================================================================
