SPECIFICATION LiveSpec
CONSTANTS Inst = {1, 2} NVB = 8 K = 1 MaxEvents = 3 Quiet = TRUE Marking = FALSE Record = FALSE
PROPERTY Converges
CHECK_DEADLOCK FALSE
