SPECIFICATION Spec
CONSTANTS MaxLen = 3
INVARIANTS Prop Emit
CHECK_DEADLOCK FALSE
