SPECIFICATION Spec
CONSTANTS MaxN = 1024
 NSet <- NSetAll
INVARIANTS Partition ClosedForm Emit
CHECK_DEADLOCK FALSE
