SPECIFICATION Spec
CONSTANTS MaxRounds = 2 MaxStarts = 2 MaxStops = 2 Record = FALSE D = 0
VIEW view
INVARIANTS C19 DieIff
CHECK_DEADLOCK FALSE
