SPECIFICATION Spec
CONSTANTS
  NVB = 1
  InitLog <- EmptyLog
  MaxSeq = 3
  Keys = {"user"}
  Kinds = {"mut"}
  OldEvents = FALSE
  BadEvents = FALSE
  FoUuid <- Fo10
  Savers = {"p"}
  MaxSaves = 0
  MaxCrash = 0
  MaxAcks = 1
  MaxGen = 6
  MaxNotify = 0
  MaxEnds = 2
  MaxFail = 0
  AutoReset = "earliest"
  Finite = FALSE
  AutoCkpt = FALSE
  Infos <- NoInfos
  Info0 <- Info11
  EndCauses = {"statechanged"}
  Hold = FALSE
  AllowClose = FALSE
  Rollbacks = TRUE
  FailSaves = FALSE
  Focus = TRUE
  Record = FALSE
  ReadOnly = FALSE
  AckSplit = FALSE
  HoldCb = FALSE
  RM = FALSE
  Slots = 1
  RmUuids = {1, 2}
  RmMonotone = FALSE
  Scrapes = FALSE
  HookScrapes = FALSE
  Marking = FALSE
  WindAt = 0
  Gaps = {}
  Bugs = {}
VIEW view
INVARIANTS C07 C16 C01 C02 C03 C04 C05 C06 C08 C11 C12 C13 C14 C15 StoreAgrees ReopenArmed
CHECK_DEADLOCK FALSE
