"""C10: group membership. MemberCB.tla (Couchbase heart-beat membership) / MemberSD.tla (leader-assigned numbering) / MemberDyn.tla (numbering
requested over the instance's API) are
model-checked against the monitor MemberMon.tla; TLC-generated behaviours are executed on groups of real instances
(vdrive -spec membercb | membersd); MonMember.tla (TLC) judges the events recorded from the real code."""
import os, re, json, time, shutil
import vlib, funcheck

PARTS = {
    # name: (exhaustive configs quick / thorough, liveness config, sim configs [(module, cfg, num quick, num thorough, depth)], driver)
    "cb": {
        "module": "MCMemberCB",
        "exhaustive": {"quick": [("MCMemberCBQ", "3 instances, 4 joins/deaths only while no round is in flight, K = 1 round")],
                       "thorough": [("MCMemberCB", "3 instances, 5 joins/deaths at any moment of any round, K = 1 round")]},
        "liveness": ("MCMemberCBLive", "2 instances, 3 joins/deaths, weak fairness of every instance's monitor steps"),
        "sims": [("SimMemberCB", "SimMemberCB", 40, 500, 60), ("SimMemberCB", "SimMemberCB8", 12, 150, 120)],
        "driver": "membercb",
        "scenarios": [("ReplayMemberCB", "wit_membercb.ndjson")],
    },
    "dyn": {
        "module": "MCMemberDyn",
        "exhaustive": {"quick": [("MCMemberDynQ", "3 instances, 4 requests of any numbering n/t (t <= 3) to any instance, discovery queries at any moment")],
                       "thorough": [("MCMemberDyn", "3 instances, 5 requests of any numbering n/t (t <= 3) to any instance, discovery queries at any moment")]},
        "sims": [("SimMemberDyn", "SimMemberDyn", 30, 400, 24)],
        "driver": "memberdyn",
    },
    "sd": {
        "module": "MCMemberSD",
        "exhaustive": {"quick": [("MCMemberSDQ", "3 instances, 3 starts/deaths at any unit of time, lease acquired by any live instance, election "
                                                 "callbacks in any order; P = 4 units, rebalanceDelay 2 units, stable after 9 quiet units")],
                       "thorough": [("MCMemberSD", "3 instances, 4 starts/deaths at any unit of time, lease acquired by any live instance, election "
                                                   "callbacks in any order; P = 4 units, rebalanceDelay 2 units, stable after 9 quiet units")]},
        "sims": [("SimMemberSD", "SimMemberSD", 40, 600, 90), ("SimMemberSD", "SimMemberSD8", 10, 150, 160)],
        "driver": "membersd",
    },
}


def build_sd(work):
    """the leader-assigned rig runs under testing/synctest: a test binary built with the newer toolchain (go1.26.8)"""
    d = os.path.join(work, "harness-sd")
    shutil.rmtree(d, ignore_errors=True)
    shutil.copytree(os.path.join(vlib.VERIF, "harness-sd"), d, ignore=shutil.ignore_patterns("go.mod", "go.sum"))
    open(os.path.join(d, "go.mod"), "w").write(open(os.path.join(d, "go.mod.tmpl")).read().replace("@REPO@", vlib.REPO))
    shutil.copy(os.path.join(vlib.REPO, "go.sum"), os.path.join(d, "go.sum"))
    out = os.path.join(work, "vsd.test")
    p = vlib.sh(["go1.26.8", "test", "-c", "-tags", "verif", "-ldflags=-checklinkname=0", "-o", out, "."], cwd=d, env=vlib.GOENV, timeout=1500)
    if p.returncode != 0:
        raise vlib.Machinery("the service-discovery rig does not build against %s:\n%s" % (vlib.REPO, (p.stdout + p.stderr)[-3000:]))
    return out


def drive_sd(vsd, scheds, work):
    fin, fout = os.path.join(work, "sd-in.ndjson"), os.path.join(work, "sd-out.ndjson")
    with open(fin, "w") as f:
        for s in scheds:
            f.write(json.dumps(s, separators=(",", ":")) + "\n")
    p = vlib.sh([vsd, "-test.run", "TestDrive", "-test.timeout", "1500s"], cwd=work, env=dict(os.environ, VERIF_SD_IN=fin, VERIF_SD_OUT=fout), timeout=1600)
    if p.returncode != 0 or not os.path.exists(fout):
        raise vlib.Machinery("the service-discovery rig failed (exit %s): %s" % (p.returncode, (p.stdout + p.stderr)[-3000:]))
    lines, summ = [], {"runs": 0, "steps": 0, "diverged_runs": 0, "skipped_steps": 0}
    for line in open(fout):
        t = json.loads(line)
        if t.get("summary"):
            for k in summ:
                summ[k] += t.get(k, 0)
        else:
            lines.append(t)
    return lines, summ


def run(prop, tier, seed):
    t0 = time.time()
    os.makedirs(vlib.CACHE, exist_ok=True)
    work = os.path.join(vlib.CACHE, "c10-%d" % os.getpid())
    shutil.rmtree(work, ignore_errors=True); os.makedirs(work)
    try:
        vdrive, _ = vlib.build_harness(work)
        vsd = build_sd(work)
        vlib.spec_copy(work)
        mc_runs, allsch = [], []
        for pname, part in PARTS.items():
            for cfg, note in part["exhaustive"][tier]:
                out, rc, wall = vlib.tlc(work, part["module"], cfg, timeout=3000)
                r = vlib.parse_tlc(out)
                if r["violated"] or r["error"] or not r.get("complete"):
                    raise vlib.Machinery("%s does not pass TLC: %s %s\n%s" % (cfg, r["violated"], r["error"], out[-1500:]))
                mc_runs.append(dict(r, cfg=cfg, constants=note, wall_s=round(wall, 1)))
            if part.get("liveness"):
                cfg, note = part["liveness"]
                out, rc, wall = vlib.tlc(work, part["module"], cfg, timeout=3000)
                r = vlib.parse_tlc(out)
                if r["violated"] or r["error"] or not r.get("complete") or "violated" in out:
                    raise vlib.Machinery("%s (liveness) does not pass TLC: %s %s" % (cfg, r["violated"], r["error"]))
                mc_runs.append(dict(r, cfg=cfg, constants=note + " (temporal property Converges)", wall_s=round(wall, 1)))
            for k, (mod, cfg, nq, nt, depth) in enumerate(part["sims"]):
                num = nq if tier == "quick" else nt
                sout, rc, _ = vlib.tlc(work, mod, cfg, workers=1, timeout=1800,
                                       extra=["-simulate", "num=%d" % num, "-depth", str(depth), "-seed", str(seed * 100 + k)])
                p = os.path.join(work, "sim-%s-%d.txt" % (pname, k))
                open(p, "w").write(sout)
                ss = [vlib.sched_extract.strip_nops(s) for s in vlib.sched_extract.extract(p)]
                if len(ss) < num // 2:
                    raise vlib.Machinery("%s produced %d of %d behaviours\n%s" % (cfg, len(ss), num, sout[-1500:]))
                for s in ss:
                    s["driver"] = part["driver"]; s["src"] = "sim:" + cfg; s["part"] = pname
                allsch += ss
            for mod, fname in part.get("scenarios", []):
                src = os.path.join(vlib.VERIF, "scenarios", fname)
                pats = [l for l in open(src).read().splitlines() if l.strip()] if os.path.exists(src) else []
                if not pats:
                    continue
                open(os.path.join(work, "labels.ndjson"), "w").write("\n".join(pats) + "\n")
                rout, rc, _ = vlib.tlc(work, mod, workers=1, timeout=900)
                p = os.path.join(work, "rep-%s.txt" % pname)
                open(p, "w").write(rout)
                ss = vlib.sched_extract.extract(p)
                badj = [s.get("j") for s in ss if not s.get("complete", True)]
                if len(ss) != len(pats) or badj:
                    raise vlib.Machinery("scenarios %s are not behaviours of %s: %d of %d came back, incomplete %s\n%s"
                                         % (fname, mod, len(ss), len(pats), badj[:5], rout[-1500:]))
                for s in sorted(ss, key=lambda x: x.get("j", 0)):
                    s["driver"] = part["driver"]; s["src"] = "scenario:%s#%s" % (fname, s.get("j")); s["part"] = pname
                    allsch.append(s)
        for i, s in enumerate(allsch):
            s["id"] = i + 1; s["isolate"] = True; s["nvb"] = 8
        lines, summ = vlib.drive(vdrive, [s for s in allsch if s["driver"] in ("membercb", "memberdyn")], work, shards=int(os.environ.get("VERIF_SHARDS", "8")))
        l2, s2 = drive_sd(vsd, [s for s in allsch if s["driver"] == "membersd"], work)
        lines += l2
        for k in summ:
            summ[k] += s2[k]
        if summ["runs"] != len(allsch):
            raise vlib.Machinery("%d of %d schedules were executed" % (summ["runs"], len(allsch)))
        bad, nev = vlib.monitor(lines, allsch, {"monitor": "MonMember"}, work)
        skipped = [t for t in lines if t.get("skipped")]
        diverged = {}
        for t in lines:
            if (t.get("diff") or t.get("skipped")) and t["run"] not in diverged:
                diverged[t["run"]] = {"run": t["run"], "step": t["i"], "label": t["l"], "diff": (t.get("diff") or t.get("skipped"))[:300]}
        viols = []
        rp = os.path.join(os.environ.get("VERIF_EVIDENCE_DIR", os.path.join(vlib.VERIF, "evidence")), "replay"); os.makedirs(rp, exist_ok=True)
        smap = {s["id"]: s for s in allsch}
        for run_, line, pid, msg in bad:
            dst = os.path.join(rp, "C10-seed%d-run%d.json" % (seed, run_))
            json.dump({"family": "member-" + smap[run_]["part"], "schedule": smap[run_], "trace": [t for t in lines if t["run"] == run_]}, open(dst, "w"))
            viols.append((dst, msg, smap[run_]["src"]))
        labels = {}
        for s in allsch:
            for st in s["steps"]:
                a = st["l"].get("a")
                labels[a] = labels.get(a, 0) + 1
        nev_kind = {}
        for t in lines:
            for e in t.get("evs") or []:
                nev_kind[e.get("ev")] = nev_kind.get(e.get("ev"), 0) + 1
        cov = {"states": sum(r["distinct"] for r in mc_runs), "transitions": sum(r["generated"] for r in mc_runs),
               "traces_validated_against_impl": len(allsch), "model_checking_runs": mc_runs,
               "samples": [{"src": s["src"], "schedule": " ".join(vlib.lab(st["l"]) for st in s["steps"])[:900]} for s in allsch[:2]]
                          + [{"trace_line_from_real_code": next((t for t in lines if t.get("evs")), None)}],
               "schedules_executed_on_real_code": len(allsch), "steps_executed": summ["steps"], "steps_not_executable": len(skipped),
               "conformance_diverged_runs": len(diverged), "first_divergences": list(diverged.values())[:5],
               "observable_events_monitored_by_tlc": nev, "label_counts": labels, "event_counts": nev_kind}
        funcheck.evidence(prop, tier, seed, "model_checking", cov,
                          ["leader-assigned numbering: real servicediscovery.ServiceDiscovery objects with their real heart-beat and monitor loops under "
                           "testing/synctest (virtual time, go1.26.8); the pod-to-pod rpc client is replaced by direct calls into the peer's real rpc "
                           "Handler (fails exactly when one end is dead); the election callbacks of stream/leader_election.go are reproduced call by "
                           "call without dialling; the Kubernetes lease itself is the environment's choice",
                           "dynamic membership: real api.NewAPI servers (PUT /membership/info over HTTP on local ports), a real event bus and a real "
                           "stream.NewVBucketDiscovery of type dynamic per instance; requests to one instance are separated by quiet periods (two "
                           "publications in flight on the bus are not ordered); the orchestrator's numbering is the schedule's",
                           "static and stateful-set membership hold the configured numbering by construction and are not modelled",
                           "Couchbase membership: real couchbase.NewCBMembership instances over real couchbase.NewClient connections to a "
                           "simulated node (harness/simnode: memcached binary protocol, one front-end per instance on a shared document store); "
                           "monitor()/heartbeat() rounds are run through verif exports, the background loops sleep (1 h intervals)",
                           "time is modelled by ageing documents: a stopped instance's heart-beat document is rewritten on the server as three hours "
                           "old, or deleted (expiry); a running instance's document is always fresh",
                           "joins (register) are atomic with respect to other instances' requests (the property separates joins by quiet periods); "
                           "the two-step register racing another instance's monitor round is outside the property and not explored here",
                           "bounded constants of the TLC configurations; TLC, the Go runtime, gocbcore and the simulated node are trusted"],
                          time.time() - t0, len(viols))
        print("property=C10 tier=%s seed=%d: TLC %d distinct states (%s); %d schedules / %d steps on groups of real instances; %d diverged from "
              "the specification; %d monitored events; %d violations"
              % (tier, seed, cov["states"], "+".join(r["cfg"] for r in mc_runs), len(allsch), summ["steps"], len(diverged), nev, len(viols)))
        for d in list(diverged.values())[:2]:
            print("  divergence (not a verdict): run %s step %s %s: %s" % (d["run"], d["step"], d["label"], d["diff"]))
        for dst, msg, src in viols[:10]:
            print("VIOLATION property=C10 replay=%s   (%s; %s)" % (dst, msg, src))
        return 1 if viols else 0
    except vlib.Machinery as e:
        print("MACHINERY-ERROR property=%s %s" % (prop, e))
        return 2
    finally:
        shutil.rmtree(work, ignore_errors=True)
