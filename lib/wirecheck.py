"""Wire-level part of C02 / C08 / C14: StreamReq.tla (TLC: branch rule of the rollback re-request) prints rows, 64-bit fidelity rows
are added, vfunc executes all of them with the real couchbase client / metadata backends against the simulated node, MonWire.tla
(TLC) judges the DCP_STREAM_REQ packets, the reloaded checkpoints and the document keys."""
import os, re, json, time, shutil, subprocess, random
import vlib, funcheck

TOKENS = ["0", "1", "2147483648", "4294967301", "9007199254740993", "9223372036854775808", "18446744073709551615"]


def fid_rows(n, seed):
    rnd = random.Random(seed)
    rows = []
    for i in range(n):
        t = [rnd.choice(TOKENS) for _ in range(5)]
        if i < len(TOKENS):                      # every token once in every field
            t = [TOKENS[i]] * 5
        rows.append({"vb": [0, 1, 7, 64, 512, 1023][i % 6], "group": ["g%d" % i, "my-group_%d" % i, "G:%d" % i][i % 3], "uuid": t[0], "seq": t[1], "ss": t[2], "se": t[3], "end": t[4]})
    return rows


def extra(prop, tier, seed):
    """returns (violations [(replay_path, message, source)], coverage dict); raises vlib.Machinery"""
    os.makedirs(vlib.CACHE, exist_ok=True)
    work = os.path.join(vlib.CACHE, "wire-%s-%d" % (prop, os.getpid()))
    shutil.rmtree(work, ignore_errors=True); os.makedirs(work)
    try:
        vfunc = funcheck.build_vfunc(work)
        vlib.spec_copy(work)
        cfg = "MCStreamReqQ" if tier == "quick" else "MCStreamReq"
        out, rc, wall = vlib.tlc(work, "StreamReq", cfg, timeout=1500)
        r = vlib.parse_tlc(out)
        if r["violated"] or r["error"] or not r.get("complete"):
            raise vlib.Machinery("%s does not pass TLC: %s %s\n%s" % (cfg, r["violated"], r["error"], out[-1500:]))
        n = {"SREQ": 0, "FID": 0}
        with open(os.path.join(work, "table.txt"), "w") as tab:
            for m in re.finditer(r'^<<"SREQ", "(.*)">>$', out, re.M):
                tab.write("SREQ %s\n" % vlib.sched_extract.tla_unescape(m.group(1)))
                n["SREQ"] += 1
            for row in fid_rows(30 if tier == "quick" else 300, seed):
                tab.write("FID %s\n" % json.dumps(row))
                n["FID"] += 1
        if n["SREQ"] == 0:
            raise vlib.Machinery("StreamReq.tla printed no rows")
        p = subprocess.run([vfunc, "-what", "wire", "-in", os.path.join(work, "table.txt"), "-out", os.path.join(work, "mon.ndjson")],
                           capture_output=True, text=True, timeout=1500)
        if p.returncode != 0:
            raise vlib.Machinery("vfunc wire failed: " + p.stderr[-2000:])
        rows = open(os.path.join(work, "mon.ndjson")).read().splitlines()
        if len(rows) != sum(n.values()):
            raise vlib.Machinery("vfunc wire returned %d of %d rows" % (len(rows), sum(n.values())))
        mout, rc, _ = vlib.tlc(work, "MonWire", workers=1, timeout=1500, env=dict(os.environ, JAVA_TOOL_OPTIONS="-Xss256m"))
        m = re.search(r'<<"VERDICT", (\d+), "(.*)">>', mout)
        if not m or int(m.group(1)) != len(rows):
            raise vlib.Machinery("MonWire did not consume the table (%s of %d rows)\n%s" % (m.group(1) if m else "?", len(rows), mout[-1500:]))
        bad = [b for b in json.loads(vlib.sched_extract.tla_unescape(m.group(2))) if b[2] == prop]
        viols, seen = [], set()
        rp = os.path.join(os.environ.get("VERIF_EVIDENCE_DIR", os.path.join(vlib.VERIF, "evidence")), "replay"); os.makedirs(rp, exist_ok=True)
        for _, pos, pid, msg in sorted(bad, key=lambda b: b[1]):
            if msg in seen:
                continue
            seen.add(msg)
            dst = os.path.join(rp, "%s-wire-row%d.json" % (prop, pos))
            json.dump({"family": "wire", "row": json.loads(rows[pos - 1]), "message": msg}, open(dst, "w"))
            viols.append((dst, msg, "wire"))
        cov = {"specification": "StreamReq.tla / %s: %d states (failover logs x offsets x rollback answers)" % (cfg, r["distinct"]),
               "rows_executed_by_the_real_client_against_the_simulated_node": n, "rows_violating": len(bad),
               "sample": json.loads(rows[min(len(rows) - 1, 5)]),
               "what": "real couchbase.NewClient(...).OpenStream over a gocbcore DCP agent (first request, ROLLBACK answer, failover log, "
                       "second request, observer catch-up mark); real NewCBMetadata and NewFSMetadata save + load; real getCheckpointID"}
        return viols, cov
    finally:
        shutil.rmtree(work, ignore_errors=True)
