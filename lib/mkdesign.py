#!/usr/bin/env python3
"""Re-inserts design/sec0.md (with the seeded-change table from seeded/RESULTS.json) into DESIGN.md between the markers."""
import json, os, re
V = os.path.abspath(os.path.join(os.path.dirname(os.path.abspath(__file__)), ".."))
sec = open(os.path.join(V, "design", "sec0.md")).read()
rows = ["| change | what was changed (one line) | reported by | first message |", "|---|---|---|---|"]
rp = os.path.join(V, "seeded", "RESULTS.json")
res = json.load(open(rp)) if os.path.exists(rp) else {}
for sid in sorted(os.listdir(os.path.join(V, "seeded"))):
    mp = os.path.join(V, "seeded", sid, "meta.json")
    if not os.path.exists(mp):
        continue
    m = json.load(open(mp))
    r = res.get(sid, {})
    caught = [p for p, c in r.get("checks", {}).items() if c["exit"] == 1]
    first = ""
    for p in caught:
        f = r["checks"][p]["first"]
        if f:
            first = re.sub(r"^VIOLATION property=\S+\s*", "", f[0]).strip(" ()")[:110]
            break
    summ = re.sub(r"\s+", " ", m.get("summary", ""))[:120].replace("|", "/")
    broken = [p for p, c in r.get("checks", {}).items() if c["exit"] not in (0, 1)]
    verdict = ", ".join(caught) if caught else ("(not run)" if not r else ("(machinery error: rerun)" if broken else "**not detected**"))
    rows.append("| %s | %s | %s | %s |" % (sid, summ, verdict, first.replace("|", "/")))
sec = sec.replace("@SEEDED@", "\n".join(rows))
p = os.path.join(V, "DESIGN.md")
s = open(p).read()
b, e = "<!-- SEC0 BEGIN -->", "<!-- SEC0 END -->"
if b not in s:
    i = s.index("## 1. What is being verified")
    s = s[:i] + b + "\n" + e + "\n\n" + s[i:]
s = s[:s.index(b) + len(b)] + "\n" + sec + "\n" + s[s.index(e):]
open(p, "w").write(s)
print("DESIGN.md updated; seeded rows:", len(rows) - 2)
