HOOK_COMMITS = ["341cf12", "11958cd", "a42f779", "36abb38", "cf8069d", "bc0d863", "66898da", "35ac2b3", "6e02833", "98a7cdc", "e442d71"]
NOTES = ("Verdicts come only from property monitors evaluated by TLC on events recorded from the real code; a "
         "conformance divergence between code and specification is reported in the evidence but is never a violation. "
         "Fix commits in /repo: 00358e6 (F7), c768102 (F1), 92c7e00 (F5), 905c7fb (F2), 18b399f (F4); known findings F6, F8; see known_findings.json.")
_A = ("rig A (fake client / metadata / consumer around the real stream, observer and checkpoint code); "
      "gate-level atomicity; bounded constants of the TLC configurations; TLC, the Go runtime and the harness are trusted")
CHECKS = {
    "C01": {"text": "Core.tla (observer + offsets + dirty tracking + five-step save + crash/restart) is model-checked "
                    "exhaustively against the C01 monitor (every durable checkpoint was settled before its write began) for "
                    "all interleavings of deliveries, acks, saves by two savers, store failures and a crash after any step "
                    "incl. between the per-vBucket writes; the same monitor is evaluated by TLC on traces of the real code "
                    "driven through TLC-generated schedules.",
            "ref": "6/C01", "note": _A, "technique": "TLA+ model checking (TLC) + schedule replay on real code + TLC trace monitors"},
    "C04": {"text": "exhaustive TLC check of Core.tla against the C04 monitors (tracked/exposed position = maximum settled, "
                    "TrackOffset only on accepted moves, nothing tracked or stored outside the assigned range), monitors "
                    "re-evaluated on real-code traces incl. repeated / out-of-order acks.",
            "ref": "6/C04", "note": _A, "technique": "TLA+ model checking (TLC) + schedule replay on real code + TLC trace monitors"},
    "C05": {"text": "exhaustive TLC check of the save protocol at the code's atomicity (flag read, lock, take-over of the dirty "
                    "set, dump, per-vBucket store writes, failure re-mark) against the C05 monitors (completed save => every "
                    "position settled before it began is durable; failed save loses nothing; idle save writes nothing); found "
                    "F1 and F7, both repaired; monitors re-evaluated on real-code traces with acks at every gate of an "
                    "in-flight save, incl. an acknowledgement caught inside the consumer's TrackOffset (between the position store and the "
                    "dirty mark: AckBegin / AckMark) while a save takes the dirty set over.",
            "ref": "6/C05", "note": _A, "technique": "TLA+ model checking (TLC) + schedule replay on real code + TLC trace monitors"},
    "C06": {"text": "exhaustive TLC check of Core.tla against the C06 monitors (every delivered / tracked / dumped / stored "
                    "offset is one of the offsets legitimately issued for that vBucket, start<=seq<=end, uuid of the stream's "
                    "branch; out-of-snapshot event stops the client), re-evaluated on real-code traces.",
            "ref": "6/C06", "note": _A, "technique": "TLA+ model checking (TLC) + schedule replay on real code + TLC trace monitors"},
}

_T = "TLA+ model checking (TLC) + schedule replay on real code + TLC trace monitors"
_T = "TLA+ model checking (TLC) + schedule replay on real code + TLC trace monitors"
CHECKS.update({
    "C02": {"text": "every first stream request of a session is compared by the C02 monitor with what the store holds (exact tuple), "
                    "with zeros (earliest) or with the sampled high seqno (latest, nothing stored for the assignment), and its end with "
                    "the dcp mode (infinite / finite = sampled high); Core.tla is model-checked against it in the finite+latest, "
                    "fault and save-protocol configurations (stores written by earlier sessions, crashes, flushes, partial loads); the "
                    "real code runs TLC-generated schedules and the monitor is re-evaluated on its traces. Read-only metadata mode is a constant of "
                    "Core.tla (the wrapped backend: saves return at once, nothing is written, loads pass through): any StoreWrite observed in "
                    "that mode is a C02 violation, loads are compared with the store as in every mode."
                    " Wire level: StreamReq.tla (TLC: the re-request after ROLLBACK(r) resumes on the failover branch that contains r) prints rows that the REAL couchbase client executes over a gocbcore DCP agent against the simulated node; MonWire.tla (TLC) judges the DCP_STREAM_REQ packets the node received, 64-bit fidelity rows through the stream request, the Couchbase xattr metadata backend and the file backend, and the checkpoint document keys.",
            "ref": "6/C02", "note": _A + "; 64-bit fidelity is checked on 7 boundary values per field, not proved over the value space",
            "technique": _T},
    "C03": {"text": "Core.tla lets the SERVER choose every next event (snapshot layouts, mutation/deletion/expiration, system, "
                    "seqno-advanced, key classes incl. reserved prefixes, events before skipUntil, rollback on open, crash and "
                    "resume mid-snapshot); TLC checks exhaustively that the consumer sees exactly the expected document events in "
                    "order, once; the same expectation monitor runs on real-code traces of TLC-generated schedules.",
            "ref": "6/C03", "note": _A + "; field fidelity beyond kind/seqno/key class/offset is not yet covered", "technique": _T},
    "C07": {"text": "the rollback-mitigation gate is part of Core.tla: every observer callback first waits until the stream's threshold "
                    "covers its seqno or the observer is closed (Push / GateOpen), persistence reports of every listed copy arrive in any "
                    "order with any vbUUID / seqno / absence (Report / Absent update the replica table; getMinSeqNo is transcribed; "
                    "SetPersistSeqNo ignores 0 and never decreases). TLC checks exhaustively that nothing takes effect before every listed "
                    "copy reported it under one vbUUID, the threshold is monotone and never ahead of the reports, a covered event goes on, "
                    "Close() releases waiting events undelivered. The same monitor (with its own definition of the common minimum) judges "
                    "real-code traces: real observers with the gate switched on, the real getMinSeqNo / IsOutdated / dispatchPersistSeqNo / "
                    "SetPersistSeqNo driven by the schedule's reports.",
            "ref": "6/C07", "note": _A + "; the OBSERVE_SEQNO polling loop, config watching and error handling of rollback_mitigation.go need a "
                    "connected gocbcore agent and are not executed (the reply handler's table update is reproduced in couchbase/export_verif.go "
                    "from its real parts)", "technique": _T},
    "C10": {"text": "MemberCB.tla models the Couchbase heart-beat membership of a group of instances at the granularity of their key-value "
                    "requests (register, heartbeat, the three phases of a monitor round: read index, read every instance document, CAS-rewrite + "
                    "rebalance; CAS mismatch -> retry; missing / stale documents dropped; ageing and expiry of a stopped instance's document). "
                    "The monitor MemberMon.tla states C10 over observables only (Joined, Gone, Announce(i,n,t), Crashed, Stable): at stability "
                    "every live instance holds <<its position in join order, group size>>, numbers are pairwise distinct, every vBucket has exactly "
                    "one owner under the partition rule, a numbering is announced only when it differs, no live instance crashes. TLC checks "
                    "MemberCB => monitor for every interleaving of the rounds of 3 instances with joins / deaths at any moment, plus convergence "
                    "under weak fairness. TLC-generated behaviours (random, groups of 4 and 8; BFS witnesses of named situations such as a CAS retry "
                    "or a same-size membership change) are executed on groups of REAL couchbase.NewCBMembership instances over real couchbase.NewClient "
                    "connections to a simulated Couchbase node (harness/simnode), every key-value request of a monitor round held and released per "
                    "instance. MemberSD.tla models the leader-assigned variant (service-discovery heart-beat and monitor loops of every instance on a "
                    "unit clock, lease acquisition and the election callbacks in any order, silent deaths): leader = 1, followers 2.. in join order; "
                    "its behaviours run on groups of real servicediscovery objects with their real 5-second loops under testing/synctest. "
                    "MemberDyn.tla models the dynamic variant (an orchestrator tells each instance its numbering over the instance's API; the API "
                    "announces it on the bus only when it differs; the discovery blocks until the first request and answers with the last): its "
                    "behaviours run on real api.NewAPI servers over HTTP with a real bus and a real VBucketDiscovery per instance. "
                    "MonMember.tla (TLC) judges the recorded announcements of all three.",
            "ref": "6/C10", "note": "real cbMembership + real client + gocbcore against a simulated node; time modelled by ageing documents on the "
                    "server; joins are atomic w.r.t. other instances (the property separates joins by quiet periods). Leader-assigned variant: the net/rpc transport "
                    "is replaced by direct calls into the peer's real rpc Handler, the Kubernetes lease is the environment. The static and dynamic "
                    "mechanisms hold their numbering by construction (configuration / last API request) and are not modelled", "technique": _T},
    "C17": {"text": "Config.tla transcribes ApplyDefaults helper by helper as a sequential process over an options record (unset = Go zero value) "
                    "and TLC checks, from every configuration of the family (nothing / everything / every single option / every pair of options set, "
                    "to the default value itself or another value, x environment overrides), that defaults fill, explicit values survive, the "
                    "environment wins and a second application changes nothing; ConfigGet.tla does the same for the derived Couchbase-metadata / "
                    "membership / leader-election records under override maps; DataUnit.tla for size strings with exact integer arithmetic; "
                    "EnvSubst.tla for ${VAR} layouts (incl. literal dollar signs and shell-style $NAME text around the placeholders). Every initial state prints a table row; vfunc replays the rows into the real config.Dcp, the real "
                    "getters, helpers.ResolveUnionIntOrStringValue and newDcpConfig (a YAML file per row); MonConfig.tla (TLC) judges what they returned.",
            "ref": "6/C17", "note": "pure functions: TLA+ decides a transcription, the binding is table replay; two representative values per option; sizes "
                    "beyond 2 GiB do not fit TLC's 32-bit integers",
            "technique": "TLA+ transcription model-checked exhaustively (TLC) + table replay into the real functions + TLC re-check of their outputs"},
    "C08": {"text": "rollback on stream open as an environment choice in Core.tla (any R <= F): after it nothing at or below F "
                    "is shown, everything above is, offsets carry the new branch uuid; exhaustive in TLC, monitored on rig-A "
                    "traces (the fake client plays the part of client.OpenStream's rollback path; the second stream request "
                    "on the wire is checked separately)."
                    " Wire level: StreamReq.tla (TLC: the re-request after ROLLBACK(r) resumes on the failover branch that contains r) prints rows that the REAL couchbase client executes over a gocbcore DCP agent against the simulated node; MonWire.tla (TLC) judges the DCP_STREAM_REQ packets the node received, 64-bit fidelity rows through the stream request, the Couchbase xattr metadata backend and the file backend, and the checkpoint document keys.",
            "ref": "6/C08", "note": _A + "; the wire-level rows use failover logs of <= 3 entries and seqnos <= 3", "technique": _T},
    "C09": {"text": "Chunk.tla transcribes helpers.ChunkSlice / VBucketDiscovery.Get; TLC enumerates every (N,T) of the domain as initial "
                    "states and checks Partition (non-empty, contiguous, ascending, disjoint, exact cover, sizes differ by <= 1) and the "
                    "closed form; the table it prints is replayed into the real functions and MonChunk.tla re-checks Partition on what the real "
                    "code returned: the chunks of helpers.ChunkSlice, and - on their own terms, not by comparison - the vBucket sets "
                    "VBucketDiscovery.Get returns for the members (every member for N <= 128 / 320 and for group sizes <= 130 or >= N-2, else "
                    "first / middle / last); purity on one long-lived discovery object against fresh ones. thorough = all 1<=T<=N<=1024.",
            "ref": "6/C09", "note": "pure function: the whole stated domain is enumerated in the thorough tier; quick uses N<=96 plus the bucket sizes in use",
            "technique": "TLA+ transcription model-checked exhaustively (TLC) + table replay into the real function + TLC re-check of its outputs"},
    "C16": {"text": "Scrape / ScrapeRet are actions of Core.tla enabled at any point (incl. while the stream is closed, while a delivery is "
                    "held by the consumer, mid-rebalance); the C16 monitor recomputes from the observable history what every gauge and "
                    "counter must show (tracked position and its snapshot, lag = max(0, high - seq) against the high seqnos handed to that (any subset of them stale, i.e. below the tracked position) "
                    "scrape, total lag, accepted mutations/deletions/expirations, member / group size / range of the session, active "
                    "streams, completed rebalances); TLC checks Core against it exhaustively and on the metrics the REAL "
                    "metric.NewMetricCollector(...).Collect returned in TLC-generated schedules. The event handler of the rig also scrapes from "
                    "inside every lifecycle callback (HookScrapes): such a scrape must return and must not crash.",
            "ref": "6/C16", "note": _A + "; the HTTP layer (/metrics route, /states/offset) is not exercised, the collector is called directly",
            "technique": _T},
    "C18": {"text": "Version.tla transcribes Higher/Equal/Lower, the parser over field structures and the three gates; TLC checks "
                    "trichotomy, antisymmetry, transitivity (all triples), equality with the lexicographic order, gate monotonicity and "
                    "parse(render(t)) = t for every pair of the grid around the gates; every pair goes through the real methods and "
                    "MonVersion.tla judges their answers; malformed strings are compared with the specification's parser.",
            "ref": "6/C18", "note": "grid {4..8}x{0,1,2,4,5,6}x{0,1,2}x{0,1} (thorough); gating inside newDcp itself needs a cluster (rig B)",
            "technique": "TLA+ transcription model-checked exhaustively (TLC) + table replay into the real methods + TLC re-check of their outputs"},
    "C20": {"text": "AsyncOp.tla models caller, completion callback (statement by statement: Resolve, send on the result channel) and "
                    "the context deadline as three parties with the code's channel capacities; TLC checks Truth (no invented success), "
                    "NoBlock (the completion never blocks) and, under fairness, that every call returns and every started callback "
                    "finishes; the unbuffered variant is refuted (vacuity control). Every order of the parties' steps is executed "
                    "repeatedly on the real AsyncOp and judged by MonAsync.tla. The behaviours without a racing deadline (server answers ok / answers "
                    "an error status / stays silent) are also executed on every REAL wrapper - GetVBucketSeqNos, GetFailOverLogs, OpenStream, "
                    "CloseStream, GetCollectionIDs of client.go; Get, Create/Update/DeleteDocument, Upsert/GetXattrs, CreatePath of doc_op.go - "
                    "over real gocbcore agents against the simulated node, and on Load / Save / Clear of the Couchbase metadata backend (the document operations "
                    "with the contexts and deadlines the library itself gives them), judged by the same monitor (no invented outcome, returned by the deadline). "
                    "Found F4 (GetVBucketSeqNos dropped the callback error); repaired; the wire runs report it on the code before the fix.",
            "ref": "6/C20", "note": "a silent server costs the wrappers of client.go their hard-coded 60 s: those cases run in the thorough tier only; "
                    "Ping and the agent bootstrap are not covered",
            "technique": "TLA+ model checking (TLC, safety + liveness) + exhaustive order replay on the real primitive + TLC trace monitor"},
    "C19": {"text": "HealthCheck.tla models run / performHealthCheck / Start / Stop at the granularity of the client's Ping call; TLC checks "
                    "exhaustively (two rounds, every pattern, Stop anywhere) that the process dies exactly on five consecutive failures of "
                    "a round, that Stop returns and that no ping follows it; all 2^5 round patterns, second rounds and Stop positions are "
                    "executed on the real health checker (one process each, fail-stop observed as process death; a run that should have died and did not is judged on what the process then does) and the same monitor is "
                    "evaluated by TLC on the recorded events.",
            "ref": "6/C19", "note": "fake client; the 1 s retry wait and the ticker are real time (25 ms interval); Stop before Start not explored",
            "technique": "TLA+ model checking (TLC) + exhaustive pattern replay on real code + TLC trace monitor"},
    "C11": {"text": "lifecycle part of Core.tla (notifications from bus, API and re-armed timer; rebalance lock; Close up to "
                    "per-vBucket CloseStream; timers; re-open through Load/SeqNos/OpenStream; wait goroutines and finish tokens) "
                    "checked exhaustively against the bracket grammar of callbacks, one close per burst, range of the most "
                    "recent membership, no delivery while closed, no stop by a rebalance (with HoldCb the handler of "
                    "AfterRebalanceEnd takes time: the next rebalance blocks on the rebalance lock and must not begin before the handler has returned; "
                    "invariant ReopenArmed: in the delay phase the timer the stream holds is armed and re-opens - the rig reports Stalled when a closed "
                    "stream is not reopened however often the timers are fired); real dcp.Start/close + stream code "
                    "driven through the same schedules. Found F5 and F2 (repaired), F6 and F8 (known findings).",
            "ref": "6/C11", "note": _A + "; the rebalance delay itself is not timed (timers are fired by the driver)", "technique": _T},
    "C12": {"text": "stream ends of every cause as environment actions in Core.tla: transient => re-open from the latest settled "
                    "position, anything else final; active count = assigned minus finally ended; stop only when all ended; "
                    "exhaustive in TLC, monitored on real-code traces.",
            "ref": "6/C12", "note": _A + "; failing re-opens (1 s back-off, give up after 5) are not explored", "technique": _T},
    "C13": {"text": "dcp.Close() as an action of Core.tla enabled in every lifecycle state the model distinguishes (open, mid-save, "
                    "after a rebalance closed the stream, during the delay, after re-open): no crash, final save makes settled "
                    "positions durable, every stream closed, nothing delivered or requested afterwards, a membership change published "
                    "while / after the close (NotifyLate) has no effect; real dcp.close driven "
                    "through TLC schedules. Close during the re-open is known finding F8.",
            "ref": "6/C13", "note": _A + "; 'returns in bounded time' is checked as: the driver's schedule reaches CloseReturn", "technique": _T},
    "C14": {"text": "reserved-key document events (connector prefix, transaction prefix) generated by the model's server: never "
                    "shown to the consumer, advance the position, never cause a checkpoint write on their own; exhaustive in TLC "
                    "and monitored on real-code traces."
                    " Wire level: StreamReq.tla (TLC: the re-request after ROLLBACK(r) resumes on the failover branch that contains r) prints rows that the REAL couchbase client executes over a gocbcore DCP agent against the simulated node; MonWire.tla (TLC) judges the DCP_STREAM_REQ packets the node received, 64-bit fidelity rows through the stream request, the Couchbase xattr metadata backend and the file backend, and the checkpoint document keys.",
            "ref": "6/C14", "note": _A, "technique": _T},
    "C15": {"text": "every injected failure of metadata load, seqno query, failover-log query and stream open, a seqno answer that lacks an assigned vBucket, every flushed "
                    "vBucket (checkpoint ahead of the high seqno) is an environment action of Core.tla; TLC checks exhaustively "
                    "that the session is all-or-nothing, never requests beyond what the server reached and dies instead of "
                    "running; the real code runs the same schedules in child processes (a panic ends the run with Died).",
            "ref": "6/C15", "note": _A + "; unknown metadata/membership type strings and retry exhaustion on re-open not yet covered",
            "technique": _T},
})

NOT_APPLICABLE = {}
