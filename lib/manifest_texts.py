HOOK_COMMITS = ["341cf12"]
NOTES = ("Verdicts come only from property monitors evaluated by TLC on events recorded from the real code; a "
         "conformance divergence between code and specification is reported in the evidence but is never a violation. "
         "Fix commits in /repo: 00358e6 (F7), c768102 (F1); see known_findings.json.")
_A = ("rig A (fake client / metadata / consumer around the real stream, observer and checkpoint code); "
      "gate-level atomicity; bounded constants of the TLC configurations; TLC, the Go runtime and the harness are trusted")
CHECKS = {
    "C01": {"text": "Core.tla (observer + offsets + dirty tracking + five-step save + crash/restart) is model-checked "
                    "exhaustively against the C01 monitor (every durable checkpoint was settled before its write began) for "
                    "all interleavings of deliveries, acks, saves by two savers, store failures and a crash after any step "
                    "incl. between the per-vBucket writes; the same monitor is evaluated by TLC on traces of the real code "
                    "driven through TLC-generated schedules.",
            "ref": "6/C01", "note": _A, "technique": "TLA+ model checking (TLC) + schedule replay on real code + TLC trace monitors"},
    "C04": {"text": "exhaustive TLC check of Core.tla against the C04 monitors (tracked/exposed position = maximum settled, "
                    "TrackOffset only on accepted moves, nothing tracked or stored outside the assigned range), monitors "
                    "re-evaluated on real-code traces incl. repeated / out-of-order acks.",
            "ref": "6/C04", "note": _A, "technique": "TLA+ model checking (TLC) + schedule replay on real code + TLC trace monitors"},
    "C05": {"text": "exhaustive TLC check of the save protocol at the code's atomicity (flag read, lock, take-over of the dirty "
                    "set, dump, per-vBucket store writes, failure re-mark) against the C05 monitors (completed save => every "
                    "position settled before it began is durable; failed save loses nothing; idle save writes nothing); found "
                    "F1 and F7, both repaired; monitors re-evaluated on real-code traces with acks at every gate of an "
                    "in-flight save.",
            "ref": "6/C05", "note": _A, "technique": "TLA+ model checking (TLC) + schedule replay on real code + TLC trace monitors"},
    "C06": {"text": "exhaustive TLC check of Core.tla against the C06 monitors (every delivered / tracked / dumped / stored "
                    "offset is one of the offsets legitimately issued for that vBucket, start<=seq<=end, uuid of the stream's "
                    "branch; out-of-snapshot event stops the client), re-evaluated on real-code traces.",
            "ref": "6/C06", "note": _A, "technique": "TLA+ model checking (TLC) + schedule replay on real code + TLC trace monitors"},
}
NOT_APPLICABLE = {}
