#!/usr/bin/env python3
"""Regenerates /verif/MANIFEST.json from lib/families.py + lib/manifest_texts.py (one source of truth)."""
import json, os, sys
sys.path.insert(0, os.path.dirname(os.path.abspath(__file__)))
import families, manifest_texts as T

VERIF = os.path.abspath(os.path.join(os.path.dirname(os.path.abspath(__file__)), ".."))
props = [json.loads(l) for l in open(os.path.join(VERIF, "properties.jsonl"))]
checks, na = [], []
for p in props:
    pid = p["id"]
    if pid in families.PROPS:
        t = T.CHECKS[pid]
        checks.append({
            "property_id": pid,
            "quick_cmd": "bin/check %s --tier quick" % pid,
            "thorough_cmd": "bin/check %s --tier thorough" % pid,
            "evidence_file": "/verif/evidence/%s.json" % pid,
            "replay_cmd_template": "bin/check %s --replay {path}" % pid,
            "engine": "tla-mbt",
            "level_claimed": {"category": t.get("category", "model_checking"), "text": t["text"], "design_ref": t["ref"]},
            "level_note": t["note"],
            "technique": t["technique"],
        })
    else:
        na.append({"property_id": pid, "reason": T.NOT_APPLICABLE.get(pid, "not built yet in this round; planned in DESIGN.md section 6")})
m = {
    "version": 1,
    "setup_cmd": "bin/setup",
    "hooks": {
        "guard": "verif",
        "enable": "go build -tags verif (harness/go.mod.tmpl replaces github.com/Trendyol/go-dcp with the repository's working tree)",
        "baseline_off_cmd": "cd /repo && go test -mod=mod -vet=off -count=1 ./...",
        "source_commits": T.HOOK_COMMITS,
        "add_only": True,
    },
    "engines": [{"name": "tla-mbt", "path": "bin/check",
                 "serves_properties": sorted(families.PROPS),
                 "kind_free_text": "explicit TLA+ specifications (spec/*.tla) model-checked with TLC; TLC-generated behaviours replayed "
                                   "step by step on the real code through gate-scheduled rigs (harness/); property monitors "
                                   "(spec/Props.tla) evaluated by TLC on the events recorded from the real code"}],
    "checks": checks,
    "not_applicable": na,
    "notes": T.NOTES,
}
json.dump(m, open(os.path.join(VERIF, "MANIFEST.json"), "w"), indent=1)
print("checks:", len(checks), "not_applicable:", len(na))
