"""Which specification / configurations / driver / monitors decide which property."""

ASSUMPTIONS = [
    "atomicity: one specification action = one thread of the real code running between two points where "
    "the rig can hold it (calls into metadata store / client / consumer, vhook points); data races between "
    "two adjacent statements are not explored",
    "rig A: the real stream/observer/checkpoint code runs against a fake couchbase.Client, a fake metadata "
    "backend and a fake consumer written for this harness",
    "TLC explores the specification exhaustively only within the stated small constants",
]

FAMILIES = {
    # Core.tla, data path: observer + offsets + dirty tracking + multi-step save + crash/restart
    "data": {
        "driver": "core",
        "monitor": "MonTrace",
        "exhaustive": {
            "quick": [{"module": "MCDataQ", "cfg": "MCDataQ",
                       "note": "2 vBuckets (user,user | user,sys,adv), 2 savers, <=2 saves, <=2 acks, 1 crash, store may fail"}],
            "thorough": [{"module": "MCData", "cfg": "MCData", "timeout": 3000,
                          "note": "2 vBuckets, 2 savers, <=3 saves, <=3 acks, 1 crash, store may fail"}],
        },
        "simulate": {
            "quick": [{"module": "SimData", "cfg": "SimData", "num": 400, "depth": 40}],
            "thorough": [{"module": "SimData", "cfg": "SimData", "num": 6000, "depth": 48}],
        },
        "scenarios": [{"module": "ReplayData", "cfg": "ReplayData", "file": "data.ndjson"}],
    },
}

PROPS = {
    "C01": {"family": "data"},
    "C04": {"family": "data"},
    "C05": {"family": "data"},
    "C06": {"family": "data"},
}
