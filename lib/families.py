"""Which specification / configurations / driver / monitors decide which property."""

ASSUMPTIONS = [
    "atomicity: one specification action = one thread of the real code running between two points where "
    "the rig can hold it (calls into metadata store / client / consumer, vhook points); data races between "
    "two adjacent statements are not explored",
    "rig A: the real dcp.Start/close, stream, observer and checkpoint code runs against a fake couchbase.Client, "
    "a fake metadata backend and a fake consumer written for this harness (dcp object built by VerifNewDcp)",
    "TLC explores the specification exhaustively only within the stated small constants",
    "promptness: a goroutine that received a finish token runs to its next blocking point before anything else "
    "happens, no Save call spans the re-open of a rebalance, dcp.close does not overlap that re-open "
    "(the last is known finding F8; the first, F6; both are explored separately under Gaps)",
]


def mc(cfg, note, timeout=3000):
    return {"module": cfg, "cfg": cfg, "note": note, "timeout": timeout}


def sim(cfg, num, depth, isolate=False, salt=0, rig=None):
    return {"module": cfg, "cfg": cfg, "num": num, "depth": depth, "isolate": isolate, "salt": salt, "rig": rig or {}}


def scen(cfg, file, isolate=False, gaps=False, rig=None):
    return {"module": cfg, "cfg": cfg, "file": file, "isolate": isolate, "gaps": gaps, "rig": rig or {}}


FAMILIES = {
    # Core.tla, data path: offsets + dirty tracking + multi-step save + crash/restart, fixed server history
    "data": {
        "driver": "core", "monitor": "MonTrace",
        "exhaustive": {
            "quick": [mc("MCDataQ", "2 vBuckets (user,user | user,sys,adv), 1 saver, <=2 saves, <=2 acks, 1 crash, store may fail"),
                      mc("MCAckQ", "2 vBuckets, 1 saver, <=2 saves, 1 ack that may be held inside the consumer's TrackOffset (between the position "
                                   "store and the dirty mark) while saves go on, store may fail")],
            "thorough": [mc("MCData", "2 vBuckets, 2 savers, <=2 saves, 1 ack, 1 crash, store may fail", 5000),
                         mc("MCData2", "2 vBuckets, 1 saver, <=2 saves, <=2 acks, 1 crash, store may fail", 5000),
                         mc("MCAck", "2 vBuckets, 2 savers, <=2 saves, 1 ack that may be held inside the consumer's TrackOffset, "
                                     "store may fail", 5000)],
        },
        "simulate": {"quick": [sim("SimData", 150, 40), sim("SimAck", 40, 40, salt=3)], "thorough": [sim("SimData", 2500, 48), sim("SimAck", 800, 48, salt=3)]},
        "scenarios": [scen("ReplayData", "data.ndjson"), scen("WitReplayData", "wit_data.ndjson")],
    },
    # Core.tla, the server generates every event sequence: snapshot layouts, kinds, key classes, old events,
    # events outside their snapshot, rollback on open, crash + resume mid-snapshot
    "gen": {
        "driver": "core", "monitor": "MonTrace",
        "exhaustive": {
            "quick": [mc("MCGenQ", "1 vBucket, seqnos <=2, all kinds x key classes x old, bad events, rollback, 1 crash"),
                      mc("MCReopenQ", "1 vBucket, seqnos <=3, <=2 transient ends (fail-over), re-open answered ok / ROLLBACK(r), history "
                                      "above r discarded and re-generated with new snapshots, 1 ack")],
            "thorough": [mc("MCGen", "1 vBucket, seqnos <=3, all kinds x key classes x old, bad events, rollback, 1 crash", 5000),
                         mc("MCReopen", "1 vBucket, seqnos <=3, 2 fail-overs while streaming, re-open answered ok / ROLLBACK(r) with "
                                        "the history above r discarded, mut + seqno-advanced, 1 ack", 5000)],
        },
        # (rig option MetaCollection: the same behaviours with the connector's own documents configured into a collection of their own)
        "simulate": {"quick": [sim("SimGen", 150, 36), sim("SimGen", 40, 36, salt=7, rig={"MetaCollection": "meta", "MarkerV2": True}), sim("SimReopen", 40, 44)],
                     "thorough": [sim("SimGen", 2500, 44), sim("SimGen2", 1200, 44), sim("SimGen", 600, 44, salt=7, rig={"MetaCollection": "meta", "MarkerV2": True}),
                                  sim("SimReopen", 800, 50)]},
        "scenarios": [scen("WitReplayGen", "gen.ndjson"), scen("WitReplayGen", "wit_gen.ndjson"), scen("WitReplayReopen", "wit_reopen.ndjson"),
                      scen("WitReplayGen", "wit_gen.ndjson", rig={"MetaCollection": "meta", "MarkerV2": True})],
    },
    # Core.tla, lifecycle: notifications from bus / API / timer, close, re-open, stream ends, Close()
    "life": {
        "driver": "core", "monitor": "MonTrace",
        "exhaustive": {
            "quick": [mc("MCLifeQ", "2 vBuckets, <=1 notification, 1 end, Close(), auto checkpoint, 1 event"),
                      mc("MCLifeFQ", "1 vBucket, Close() with saves that fail: the final save behind / is a failing save, 1 save, 1 ack"),
                      mc("MCLifeHQ", "2 vBuckets, <=2 notifications, the handler of AfterRebalanceEnd held: the next rebalance blocks on the rebalance lock")],
            "thorough": [mc("MCLife", "2 vBuckets, 1 notification, 2 stream ends of every cause (also while the session opens), Close(), 1 ack", 5000)],
        },
        "simulate": {"quick": [sim("SimLife", 60, 45, isolate=True), sim("SimLifeF", 25, 40, isolate=True), sim("SimLifeH", 20, 45, isolate=True, salt=2)],
                     "thorough": [sim("SimLife", 800, 55, isolate=True), sim("SimLifeF", 400, 44, isolate=True), sim("SimLifeH", 300, 50, isolate=True, salt=2)]},
        "scenarios": [scen("ReplayLife", "life.ndjson", isolate=True), scen("ReplayLifeGaps", "life_gaps.ndjson", isolate=True, gaps=True),
                      scen("WitReplayLife", "wit_life.ndjson", isolate=True), scen("WitReplayLife1", "wit_life1.ndjson", isolate=True),
                      scen("WitReplayLifeF", "wit_lifef.ndjson", isolate=True), scen("WitReplayLifeH", "wit_lifeh.ndjson", isolate=True)],
    },
    # Core.tla, start-up faults: failing load / seqno / failover-log queries, failing stream open, checkpoint ahead
    "fault": {
        "driver": "core", "monitor": "MonTrace",
        "exhaustive": {
            "quick": [mc("MCFaultLatestQ", "2 vBuckets, auto-reset latest, <=1 injected failure / flush, 1 crash"),
                      mc("MCFaultQ", "2 vBuckets, auto-reset earliest, <=1 injected failure / flush / seqno answer lacking a vBucket, 1 crash")],
            "thorough": [mc("MCFaultLatest", "2 vBuckets, auto-reset latest, <=2 injected failures / flushes, 1 crash", 5000),
                         mc("MCFault", "2 vBuckets, auto-reset earliest, <=2 injected failures / flushes, 1 crash", 5000)],
        },
        "simulate": {"quick": [sim("SimFault", 60, 40, isolate=True), sim("SimFaultLatest", 40, 40, isolate=True)],
                     "thorough": [sim("SimFault", 600, 48, isolate=True), sim("SimFaultLatest", 400, 48, isolate=True)]},
        "scenarios": [scen("WitReplayFault", "wit_fault.ndjson", isolate=True), scen("WitReplayFaultLatest", "wit_faultlatest.ndjson", isolate=True)],
    },
}

FAMILIES["mode"] = {
    # Core.tla, finite mode + auto-reset latest on a bucket that already holds data: requested positions and ends, clean ends, natural stop
    "driver": "core", "monitor": "MonTrace",
    "exhaustive": {"quick": [mc("MCModeQ", "2 vBuckets with history, finite mode, auto-reset latest, 2 clean ends, Close(), 1 crash")],
                   "thorough": [mc("MCModeQ", "2 vBuckets with history, finite mode, auto-reset latest, 2 clean ends, Close(), 1 crash")]},
    "simulate": {"quick": [sim("SimMode", 50, 44, isolate=True)], "thorough": [sim("SimMode", 500, 44, isolate=True)]},
    "scenarios": [],
}

FAMILIES["metric"] = {
    # Core.tla with the metrics endpoint scraped at any point: real metric.NewMetricCollector(...).Collect
    "driver": "core", "monitor": "MonTrace",
    "exhaustive": {"quick": [mc("MCMetricQ", "2 vBuckets, scrapes anywhere, 1 notification, 1 ack, consumer may block")],
                   "thorough": [mc("MCMetric", "2 vBuckets, scrapes anywhere and from every lifecycle callback, mut/del, reserved keys, 1 notification, Close(), 1 ack, consumer may block", 5000),
                                mc("MCMetric2", "2 vBuckets, scrapes anywhere and from every lifecycle callback, 1 stream end of every cause, Close(), 1 ack", 5000)]},
    "simulate": {"quick": [sim("SimMetric", 80, 55, isolate=True)], "thorough": [sim("SimMetric", 900, 55, isolate=True)]},
    "scenarios": [],
}

FAMILIES["rm"] = {
    # Core.tla with the rollback-mitigation gate of the observers switched on: persistence reports of every copy of a
    # vBucket in any order / vbUUID / absence against events waiting at the gate; Close() while events wait
    "driver": "core", "monitor": "MonTrace",
    "exhaustive": {"quick": [mc("MCRmQ", "1 vBucket, 2 copies, seqnos <=2, reports (uuid 1|2, seq 0..2) in any order, absent replica, Close()")],
                   "thorough": [mc("MCRm", "1 vBucket, 3 copies, seqnos <=2, mut + seqno-advanced, reports in any order / vbUUID, absent replicas, Close()", 5000),
                                mc("MCRm2", "1 vBucket, 2 copies, seqnos <=3, mut / system / seqno-advanced, reports in any order, absent replica, 1 ack, Close()", 5000)]},
    # the same behaviours on the emulated replica table and (rig RmReal) on the REAL polling rollbackMitigation over a simulated cluster
    "simulate": {"quick": [sim("SimRm", 60, 50), sim("SimRm2", 80, 44), sim("SimRm2M", 30, 44, isolate=True, salt=5, rig={"RmReal": True}), sim("SimRmM", 15, 50, isolate=True, salt=6, rig={"RmReal": True})],
                 "thorough": [sim("SimRm", 1200, 60), sim("SimRm2", 1500, 50), sim("SimRmM", 150, 60, isolate=True, salt=5, rig={"RmReal": True}),
                              sim("SimRm2M", 300, 50, isolate=True, salt=6, rig={"RmReal": True})]},
    "scenarios": [scen("WitReplayRm", "wit_rm.ndjson"), dict(scen("WitReplayRmM", "wit_rm.ndjson", isolate=True, rig={"RmReal": True}), allow_partial=True)],
}

FAMILIES["ro"] = {
    # Core.tla in read-only metadata mode: acks, saves by two savers, final save of Close(), crash / restart; nothing is written, loads identical
    "driver": "core", "monitor": "MonTrace",
    "exhaustive": {"quick": [mc("MCRoQ", "2 vBuckets, metadata.readOnly, 1 saver, 1 save, 1 ack, 1 server event per vBucket, Close(), 1 crash")],
                   "thorough": [mc("MCRo", "2 vBuckets, metadata.readOnly, 1 saver, <=2 saves, 1 ack, Close(), 1 crash", 5000)]},
    "simulate": {"quick": [sim("SimRo", 40, 44)], "thorough": [sim("SimRo", 600, 48)]},
    "scenarios": [],
}

PROPS = {
    "C07": {"families": ["rm"]},
    "C16": {"families": ["metric"]},
    "C09": {"custom": "funcheck"},
    "C10": {"custom": "membercheck"},
    "C17": {"custom": "funcheck"},
    "C19": {"custom": "funcheck"},
    "C18": {"custom": "funcheck"},
    "C20": {"custom": "funcheck"},
    "C02": {"families": ["mode", "fault", "data", "ro"], "extra": "wirecheck"},
    "C01": {"families": ["data", "gen"], "extra": "wirecheck"},
    "C03": {"families": ["gen", "life"]},
    "C04": {"families": ["data", "gen", "life"]},
    "C05": {"families": ["data", "life"]},
    "C06": {"families": ["gen", "data"]},
    "C08": {"families": ["gen"], "extra": "wirecheck"},
    "C11": {"families": ["life"]},
    "C12": {"families": ["life", "mode"]},
    "C13": {"families": ["life"]},
    "C14": {"families": ["gen"], "extra": "wirecheck"},
    "C15": {"families": ["fault"]},
}
