"""Orchestration of the TLA+ model-based checks (see bin/check)."""
import os, sys, json, re, time, glob, shutil, hashlib, subprocess, fcntl, random

VERIF = os.path.abspath(os.path.join(os.path.dirname(os.path.abspath(__file__)), ".."))
REPO = os.environ.get("VERIF_REPO", "/repo")
SPEC = os.path.join(VERIF, "spec")
CACHE = os.environ.get("VERIF_CACHE", "/tmp/verif-cache")
GOENV = dict(os.environ, GOFLAGS="-mod=mod", GOPROXY="off", GOSUMDB="off", GOTOOLCHAIN="local")
WORKERS = int(os.environ.get("VERIF_WORKERS", "16"))

sys.path.insert(0, os.path.dirname(os.path.abspath(__file__)))
import sched_extract  # noqa: E402
import families  # noqa: E402


class Machinery(Exception):
    pass


def sh(cmd, cwd=None, env=None, timeout=None, check=False):
    p = subprocess.run(cmd, cwd=cwd, env=env, timeout=timeout, capture_output=True, text=True)
    if check and p.returncode != 0:
        raise Machinery("command failed: %s\n%s\n%s" % (" ".join(cmd), p.stdout[-3000:], p.stderr[-3000:]))
    return p


def hash_tree(paths, exts=None):
    h = hashlib.sha256()
    for root in paths:
        for d, dirs, files in os.walk(root):
            dirs[:] = sorted(x for x in dirs if x not in (".git", "states", "__pycache__", "evidence"))
            for f in sorted(files):
                if exts and not f.endswith(exts):
                    continue
                p = os.path.join(d, f)
                h.update(p.encode())
                try:
                    h.update(open(p, "rb").read())
                except OSError:
                    pass
    return h.hexdigest()[:16]


def repo_key():
    return hash_tree([REPO], exts=(".go", ".mod", ".sum"))


def verif_key():
    return hash_tree([SPEC, os.path.join(VERIF, "harness"), os.path.join(VERIF, "lib"),
                      os.path.join(VERIF, "scenarios")])


# ------------------------------------------------------------------------------------------------
def harness_copy(scratch):
    """a private copy of the harness sources with a go.mod that points at the repository under test"""
    hdir = os.path.join(scratch, "harness-src")
    shutil.rmtree(hdir, ignore_errors=True)
    shutil.copytree(os.path.join(VERIF, "harness"), hdir, ignore=shutil.ignore_patterns("go.mod", "go.sum"))
    tmpl = open(os.path.join(hdir, "go.mod.tmpl")).read().replace("@REPO@", REPO)
    open(os.path.join(hdir, "go.mod"), "w").write(tmpl)
    shutil.copy(os.path.join(REPO, "go.sum"), os.path.join(hdir, "go.sum"))
    return hdir


def build_harness(scratch):
    """go build the drivers against the repository's current working tree, hooks enabled."""
    t0 = time.time()
    hdir = harness_copy(scratch)
    out = os.path.join(scratch, "vdrive")
    p = sh(["go", "build", "-tags", "verif", "-o", out, "./cmd/vdrive"], cwd=hdir, env=GOENV, timeout=1500)
    if p.returncode != 0:
        raise Machinery("harness does not build against %s:\n%s" % (REPO, (p.stdout + p.stderr)[-4000:]))
    return out, time.time() - t0


def spec_copy(dst):
    os.makedirs(dst, exist_ok=True)
    for f in glob.glob(os.path.join(SPEC, "*.tla")) + glob.glob(os.path.join(SPEC, "*.cfg")):
        shutil.copy(f, dst)


def tlc(workdir, module, cfg=None, extra=(), timeout=3600, workers=None, env=None):
    cfg = cfg or module
    md = os.path.join(workdir, "md-%s-%d" % (cfg, random.randrange(1 << 30)))
    cmd = ["timeout", str(timeout), "tlc", "-workers", str(workers or WORKERS), "-metadir", md,
           "-config", cfg + ".cfg"] + list(extra) + [module + ".tla"]
    t0 = time.time()
    # TLC's temporary directories (one per run) go into the work directory, which is removed afterwards, not into /tmp
    jtmp = md + "-tmp"
    os.makedirs(jtmp, exist_ok=True)
    env = dict(env if env is not None else os.environ)
    env["JAVA_TOOL_OPTIONS"] = (env.get("JAVA_TOOL_OPTIONS", "") + " -Djava.io.tmpdir=" + jtmp).strip()
    p = subprocess.run(cmd, cwd=workdir, capture_output=True, text=True, env=env)
    shutil.rmtree(md, ignore_errors=True)
    shutil.rmtree(jtmp, ignore_errors=True)
    return p.stdout, p.returncode, time.time() - t0


def parse_tlc(out):
    r = {"generated": 0, "distinct": 0, "depth": 0, "violated": None, "error": None}
    m = re.search(r"(\d+) states generated, (\d+) distinct states found", out)
    if m:
        r["generated"], r["distinct"] = int(m.group(1)), int(m.group(2))
    m = re.search(r"depth of the complete state graph search is (\d+)", out)
    if m:
        r["depth"] = int(m.group(1))
    m = re.search(r"Error: Invariant (\S+) is violated", out)
    if m:
        r["violated"] = m.group(1)
    m = re.search(r"Error: Action property (\S+) is violated|Error: Temporal properties were violated", out)
    if m:
        r["violated"] = m.group(1) or "temporal"
    if r["violated"] is None:
        m = re.search(r"^Error: (.*)$", out, re.M)
        if m:
            r["error"] = m.group(1)
    if "Model checking completed. No error has been found" in out:
        r["complete"] = True
    return r


# ------------------------------------------------------------------------------------------------
def exhaustive(fam, tier, work):
    res = []
    for mc in fam["exhaustive"][tier]:
        d = os.path.join(work, "mc-" + mc["cfg"])
        spec_copy(d)
        out, rc, wall = tlc(d, mc["module"], mc["cfg"], timeout=mc.get("timeout", 3000))
        r = parse_tlc(out)
        r.update(cfg=mc["cfg"], wall_s=round(wall, 1), constants=mc.get("note", ""))
        if r["violated"] or r["error"] or not r.get("complete"):
            open(os.path.join(CACHE, "last-tlc-failure.txt"), "w").write(out[-20000:])
            raise Machinery("specification %s does not pass TLC (violated=%s error=%s rc=%s); output kept in %s" %
                            (mc["cfg"], r["violated"], r["error"], rc, os.path.join(CACHE, "last-tlc-failure.txt")))
        res.append(r)
        shutil.rmtree(d, ignore_errors=True)
    return res


def gen_schedules(fam, tier, seed, work):
    """TLC-generated behaviours (simulation) + hand-written scenarios run through the spec."""
    scheds = []
    sid = 0
    gens = []
    for sim in fam["simulate"][tier]:
        d = os.path.join(work, "sim-" + sim["cfg"])
        spec_copy(d)
        m = re.search(r"^\s*D = (\d+)", open(os.path.join(d, sim["cfg"] + ".cfg")).read(), re.M)
        depth = int(m.group(1)) if m else sim["depth"]      # behaviours are printed when they reach length D
        out, rc, wall = tlc(d, sim["module"], sim["cfg"], workers=1, timeout=900,
                            extra=["-simulate", "num=%d" % sim["num"], "-depth", str(depth),
                                   "-seed", str(seed * 7919 + sim.get("salt", 0))])
        open(os.path.join(d, "out.txt"), "w").write(out)
        ss = sched_extract.extract(os.path.join(d, "out.txt"))
        if not ss:
            raise Machinery("simulation %s produced no schedule:\n%s" % (sim["cfg"], out[-3000:]))
        for s in ss:
            s = sched_extract.strip_nops(s)
            sid += 1
            s["id"] = sid
            s["src"] = "sim:" + sim["cfg"]
            s["driver"] = sim.get("driver", fam["driver"])
            s["isolate"] = bool(sim.get("isolate"))
            s["nvb"] = s["cfg"].get("NVB", 0)
            s["cfg"].update(sim.get("rig", {}))            # rig options that the specification does not know (e.g. RmReal)
            if sim.get("rig"):
                s["src"] += "+" + ",".join(sorted(sim["rig"]))
            scheds.append(s)
        gens.append({"source": "tlc -simulate " + sim["cfg"], "behaviours": len(ss), "depth": depth,
                     "wall_s": round(wall, 1)})
        shutil.rmtree(d, ignore_errors=True)
    for sc in fam.get("scenarios", []):
        if not os.path.exists(os.path.join(VERIF, "scenarios", sc["file"])):
            continue
        d = os.path.join(work, "rep-" + sc["cfg"] + "-" + sc["file"])
        spec_copy(d)
        shutil.copy(os.path.join(VERIF, "scenarios", sc["file"]), os.path.join(d, "labels.ndjson"))
        out, rc, wall = tlc(d, sc["module"], sc["cfg"], workers=1, timeout=600)
        open(os.path.join(d, "out.txt"), "w").write(out)
        ss = sched_extract.extract(os.path.join(d, "out.txt"))
        n_exp = sum(1 for l in open(os.path.join(VERIF, "scenarios", sc["file"])) if l.strip())
        if len(ss) != n_exp:
            raise Machinery("scenario file %s: %d of %d scenarios came back from TLC\n%s" %
                            (sc["file"], len(ss), n_exp, out[-3000:]))
        for s in sorted(ss, key=lambda x: x.get("j", 0)):
            if not s.get("complete", True) and not sc.get("allow_partial"):
                raise Machinery("scenario %s #%s is not a behaviour of the specification (stops after %d steps)" %
                                (sc["file"], s.get("j"), len(s["steps"])))
            sid += 1
            s["id"] = sid
            s["src"] = "scenario:%s#%s" % (sc["file"], s.get("j"))
            s["driver"] = sc.get("driver", fam["driver"])
            s["isolate"] = bool(sc.get("isolate"))
            s["nvb"] = s["cfg"].get("NVB", 0)
            s["cfg"].update(sc.get("rig", {}))
            if sc.get("rig"):
                s["src"] += "+" + ",".join(sorted(sc["rig"]))
            scheds.append(s)
        gens.append({"source": "scenarios " + sc["file"], "behaviours": len(ss), "wall_s": round(wall, 1)})
        shutil.rmtree(d, ignore_errors=True)
    return scheds, gens


def drive(vdrive, scheds, work, shards=8):
    """execute the schedules on the real code, several driver processes in parallel."""
    by = {}
    for s in scheds:
        by.setdefault((s["driver"], bool(s.get("isolate"))), []).append(s)
    lines = []
    summ = {"runs": 0, "steps": 0, "diverged_runs": 0, "skipped_steps": 0}
    for (drv, iso), ss in by.items():
        k = max(1, min(shards, len(ss) // 4 or 1))
        procs = []
        for i in range(k):
            part = ss[i::k]
            fin = os.path.join(work, "sched-%s-%d-%d.ndjson" % (drv, iso, i))
            fout = os.path.join(work, "trace-%s-%d-%d.ndjson" % (drv, iso, i))
            with open(fin, "w") as f:
                for s in part:
                    f.write(json.dumps(s, separators=(",", ":")) + "\n")
            procs.append((subprocess.Popen([vdrive, "-spec", drv, "-in", fin, "-out", fout] + (["-isolate"] if iso else []),
                                           stdout=subprocess.PIPE, stderr=subprocess.PIPE, text=True), fin, fout))
        for p, fin, fout in procs:
            try:
                _, err = p.communicate(timeout=int(os.environ.get("VERIF_DRIVE_TIMEOUT", "1500")))
            except subprocess.TimeoutExpired:
                p.kill()
                raise Machinery("driver timed out")
            if p.returncode != 0:
                raise Machinery("driver %s died (exit %s): %s" % (drv, p.returncode, err[-3000:]))
            for line in open(fout):
                t = json.loads(line)
                if t.get("summary"):
                    for kk in summ:
                        summ[kk] += t.get(kk, 0)
                else:
                    lines.append(t)
            os.remove(fin)
            os.remove(fout)
    return lines, summ


def monitor(lines, scheds, fam, work):
    """Props monitors evaluated by TLC on the events recorded from the real code."""
    nvb_of = {s["id"]: s["nvb"] for s in scheds}
    groups = {}
    for t in lines:
        groups.setdefault(nvb_of.get(t["run"], 0), []).append(t)
    bad = []
    total = 0
    for nvb, ls in groups.items():
        d = os.path.join(work, "mon-%d" % nvb)
        spec_copy(d)
        n = 0
        with open(os.path.join(d, "mon.ndjson"), "w") as o:
            cur = None
            for t in ls:
                if t["run"] != cur:
                    cur = t["run"]
                    o.write(json.dumps({"ev": "Reset", "run": cur}) + "\n")
                    n += 1
                for e in t.get("evs") or []:
                    e = dict(e)
                    e.pop("msg", None)
                    o.write(json.dumps(e, separators=(",", ":")) + "\n")
                    n += 1
        cfgtxt = open(os.path.join(d, fam["monitor"] + ".cfg")).read()
        cfgtxt = re.sub(r"NVB = \d+", "NVB = %d" % nvb, cfgtxt)
        open(os.path.join(d, fam["monitor"] + ".cfg"), "w").write(cfgtxt)
        out, rc, wall = tlc(d, fam["monitor"], workers=1, timeout=1800,
                            env=dict(os.environ, JAVA_TOOL_OPTIONS="-Xss256m"))
        m = re.search(r'<<"VERDICT", (\d+), "(.*)">>', out)
        if not m or int(m.group(1)) != n:
            open(os.path.join(CACHE, "last-monitor-failure.txt"), "w").write(out[-20000:])
            raise Machinery("monitor did not consume the whole trace (%s of %d lines); output kept in %s" %
                            (m.group(1) if m else "?", n, os.path.join(CACHE, "last-monitor-failure.txt")))
        bad += json.loads(sched_extract.tla_unescape(m.group(2)))
        total += n
        shutil.rmtree(d, ignore_errors=True)
    return bad, total


# ------------------------------------------------------------------------------------------------
def family_run(famname, tier, seed):
    """everything that the properties of one family share; memoised per (repo, verif, tier, seed)."""
    fam = families.FAMILIES[famname]
    os.makedirs(CACHE, exist_ok=True)
    key = "%s-%s-%s-%s-%d" % (famname, repo_key(), verif_key(), tier, seed)
    cfile = os.path.join(CACHE, key + ".json")
    lock = open(os.path.join(CACHE, famname + ".lock"), "w")
    fcntl.flock(lock, fcntl.LOCK_EX)
    try:
        if os.path.exists(cfile) and not os.environ.get("VERIF_NOCACHE"):
            r = json.load(open(cfile))
            r["from_cache"] = True
            return r
        work = os.path.join(CACHE, "work-" + key)
        shutil.rmtree(work, ignore_errors=True)
        os.makedirs(work)
        t0 = time.time()
        try:
            vdrive, bwall = build_harness(work)
            mc = exhaustive(fam, tier, work)
            scheds, gens = gen_schedules(fam, tier, seed, work)
            lines, summ = drive(vdrive, scheds, work)
            bad, nev = monitor(lines, scheds, fam, work)
        finally:
            pass
        by_run = {}
        for t in lines:
            by_run.setdefault(t["run"], []).append(t)
        smap = {s["id"]: s for s in scheds}
        # first divergences (conformance)
        divs = []
        for t in lines:
            if t.get("diff") and len(divs) < 5:
                divs.append({"run": t["run"], "src": smap[t["run"]]["src"], "step": t["i"], "label": t["l"],
                             "diff": t["diff"][:600]})
        # replay material for violating runs
        viols = []
        rdir = os.path.join(CACHE, "replay-" + key)
        shutil.rmtree(rdir, ignore_errors=True)
        os.makedirs(rdir)
        seen = set()
        for run, line, prop, msg in bad:
            if (run, prop, msg) in seen:
                continue
            seen.add((run, prop, msg))
            rp = os.path.join(rdir, "run%d.json" % run)
            if not os.path.exists(rp):
                json.dump({"family": famname, "schedule": smap[run], "trace": by_run.get(run, [])}, open(rp, "w"))
            viols.append({"run": run, "fam": famname, "prop": prop, "msg": msg, "src": smap[run]["src"], "replay": rp,
                          "labels": [st["l"] for st in smap[run]["steps"]][:80]})
        labels_seen = {}
        for s in scheds:
            for st in s["steps"]:
                a = st["l"].get("a")
                labels_seen[a] = labels_seen.get(a, 0) + 1
        samples = []
        for s in scheds[:2] + scheds[-1:]:
            samples.append({"src": s["src"], "schedule": " ".join(lab(st["l"]) for st in s["steps"][:60])})
        if lines:
            samples.append({"trace_line_from_real_code": {k: lines[len(lines) // 2][k] for k in ("run", "i", "l", "evs")}})
        distinct = len({json.dumps([st["l"] for st in s["steps"]], sort_keys=True) for s in scheds})
        r = {"family": famname, "tier": tier, "seed": seed, "model_checking": mc, "generators": gens,
             "runs": summ["runs"], "steps": summ["steps"], "diverged_runs": summ["diverged_runs"],
             "skipped_steps": summ["skipped_steps"], "first_divergences": divs, "monitored_events": nev,
             "violations": viols, "label_counts": labels_seen, "distinct_schedules": distinct,
             "samples": samples, "build_s": round(bwall, 1), "wall_s": round(time.time() - t0, 1)}
        json.dump(r, open(cfile, "w"))
        shutil.rmtree(work, ignore_errors=True)
        # prune old cache entries
        olds = sorted(glob.glob(os.path.join(CACHE, famname + "-*.json")), key=os.path.getmtime)
        for o in olds[:-6]:
            os.remove(o)
            shutil.rmtree(o.replace(".json", "").replace(famname + "-", "replay-" + famname + "-"), ignore_errors=True)
        return r
    finally:
        fcntl.flock(lock, fcntl.LOCK_UN)


def lab(l):
    return l.get("a", "?") + "(" + ",".join(str(v) for k, v in sorted(l.items()) if k != "a") + ")"


def merge(rs):
    """union of the results of several families"""
    r = {"family": "+".join(x["family"] for x in rs), "model_checking": [], "generators": [], "runs": 0, "steps": 0,
         "diverged_runs": 0, "skipped_steps": 0, "first_divergences": [], "monitored_events": 0, "violations": [],
         "label_counts": {}, "distinct_schedules": 0, "samples": [], "from_cache": all(x.get("from_cache") for x in rs)}
    for x in rs:
        for k in ("model_checking", "generators", "first_divergences", "violations"):
            r[k] += x[k]
        for k in ("runs", "steps", "diverged_runs", "skipped_steps", "monitored_events", "distinct_schedules"):
            r[k] += x[k]
        for a, n in x["label_counts"].items():
            r["label_counts"][a] = r["label_counts"].get(a, 0) + n
        r["samples"] += x["samples"][:2] + x["samples"][-1:]
    return r


def known_findings():
    p = os.path.join(VERIF, "known_findings.json")
    if not os.path.exists(p):
        return []
    return json.load(open(p)).get("findings", [])


def matches(finding, v):
    """a known finding is identified by the shape of the failing history: property, reason and a
    sub-sequence of labelled steps that must all occur in the violating run, in order."""
    if finding.get("status") != "known" or finding["property"] != v["prop"]:
        return False
    if finding.get("reason") and finding["reason"] not in v["msg"]:
        return False
    for want in finding.get("histories", [finding.get("history", [])]):
        i = 0
        for l in v["labels"]:
            if i < len(want) and all(l.get(k) == val for k, val in want[i].items()):
                i += 1
        if i == len(want):
            return True
    return False


def write_evidence(prop, tier, seed, fam, r, mine, known, wall, wire=None):
    pf = families.PROPS[prop]
    mc = r["model_checking"]
    ev = {
        "property_id": prop, "tier": tier, "seed": seed, "level": pf.get("level", "model_checking"),
        "coverage": {
            "states": sum(x["distinct"] for x in mc), "transitions": sum(x["generated"] for x in mc),
            "traces_validated_against_impl": r["runs"],
            "samples": r["samples"],
            "model_checking_runs": mc,
            "monitor_invariants": pf.get("monitors", [prop]),
            "schedules_executed_on_real_code": r["runs"], "distinct_schedules": r["distinct_schedules"],
            "steps_executed": r["steps"],
            "steps_not_executable": r["skipped_steps"],
            "conformance_diverged_runs": r["diverged_runs"], "first_divergences": r["first_divergences"],
            "observable_events_monitored_by_tlc": r["monitored_events"],
            "label_counts": r["label_counts"], "schedule_sources": r["generators"],
            "rule": "a case is one TLC behaviour of the specification (a labelled schedule) executed on the real "
                    "code; distinct = distinct label sequences",
            "evaluations": r["runs"], "distinct_nontrivial": r["distinct_schedules"],
            "exhaustive": False,
            "family_result_from_cache": bool(r.get("from_cache")),
        },
        "assumptions": families.ASSUMPTIONS + pf.get("assumptions", []),
        "wall_s": round(wall, 1),
        "violations": len(mine),
        "known_findings_reported": known,
    }
    if wire is not None:
        ev["coverage"]["wire_level"] = wire
    edir = os.environ.get("VERIF_EVIDENCE_DIR", os.path.join(VERIF, "evidence"))
    os.makedirs(edir, exist_ok=True)
    json.dump(ev, open(os.path.join(edir, prop + ".json"), "w"), indent=1)


def run_check(prop, tier, seed):
    t0 = time.time()
    if prop not in families.PROPS:
        print("property %s is not claimed (see MANIFEST.json not_applicable)" % prop)
        return 2
    pf = families.PROPS[prop]
    if "custom" in pf:
        mod = __import__(pf["custom"])
        return mod.run(prop, tier, seed)
    try:
        rs = [family_run(f, tier, seed) for f in pf["families"]]
    except Machinery as e:
        print("MACHINERY-ERROR property=%s %s" % (prop, e))
        return 2
    r = merge(rs)
    xviols, xcov = [], None
    if pf.get("extra"):
        try:
            xviols, xcov = __import__(pf["extra"]).extra(prop, tier, seed)
        except Machinery as e:
            print("MACHINERY-ERROR property=%s %s" % (prop, e))
            return 2
    ids = set(pf.get("monitors", [prop]))
    mine = [v for v in r["violations"] if v["prop"] in ids]
    kf = known_findings()
    known_lines, fresh = [], []
    for v in mine:
        f = next((f for f in kf if matches(f, dict(v, prop=prop if v["prop"] in ids else v["prop"]))), None)
        if f:
            known_lines.append("KNOWN-FINDING: property=%s %s" % (prop, f["what"]))
        else:
            fresh.append(v)
    rep_dir = os.path.join(os.environ.get("VERIF_EVIDENCE_DIR", os.path.join(VERIF, "evidence")), "replay")
    out_fresh = []
    for v in fresh[:10]:
        os.makedirs(rep_dir, exist_ok=True)
        dst = os.path.join(rep_dir, "%s-seed%d-%s-run%d.json" % (prop, seed, v.get("fam", "x"), v["run"]))
        try:
            shutil.copy(v["replay"], dst)
        except OSError:
            dst = v["replay"]
        out_fresh.append((v, dst))
    write_evidence(prop, tier, seed, r["family"], r, fresh + xviols, sorted(set(known_lines)), time.time() - t0, xcov)
    for l in sorted(set(known_lines)):
        print(l)
    print("property=%s tier=%s seed=%d family=%s: TLC %s distinct states; %d schedules / %d steps on the real code; "
          "%d diverged from the specification; %d monitored events; %d violations"
          % (prop, tier, seed, r["family"], sum(x["distinct"] for x in r["model_checking"]), r["runs"], r["steps"],
             r["diverged_runs"], r["monitored_events"], len(fresh) + len(xviols))
          + ("; wire level: %d rows through the real client, %d violate" % (sum(xcov["rows_executed_by_the_real_client_against_the_simulated_node"].values()),
                                                                             xcov["rows_violating"]) if xcov else ""))
    if r["diverged_runs"]:
        for d in r["first_divergences"][:2]:
            print("  divergence (not a verdict): run %s step %s %s: %s" % (d["run"], d["step"], d["label"], d["diff"][:300]))
    for v, dst in out_fresh:
        print("VIOLATION property=%s replay=%s   (%s; %s)" % (prop, dst, v["msg"], v["src"]))
    for dst, msg, src in xviols:
        print("VIOLATION property=%s replay=%s   (%s; %s)" % (prop, dst, msg, src))
    return 1 if (fresh or xviols) else 0


def replay(prop, path):
    """re-execute the schedule of a replay file on the real code and evaluate the monitors again."""
    rp = json.load(open(path))
    schedule_fams = {"health": {"monitor": "MonHealth"}, "async": {"monitor": "MonAsync"}, "member-cb": {"monitor": "MonMember"},
                     "member-sd": {"monitor": "MonMember"}}
    if rp["family"] in ("chunk", "version", "config", "wire"):
        # function-level properties: the replay file names the failing input; the check itself is the replay
        print("replay of a function-level finding: re-running the whole table (%s)" % json.dumps(rp)[:600])
        return run_check(prop, os.environ.get("VERIF_TIER", "quick"), int(os.environ.get("VERIF_SEED", "1") or "1"))
    fam = schedule_fams.get(rp["family"]) or families.FAMILIES[rp["family"]]
    os.makedirs(CACHE, exist_ok=True)
    work = os.path.join(CACHE, "replay-work-%d" % os.getpid())
    shutil.rmtree(work, ignore_errors=True)
    os.makedirs(work)
    try:
        vdrive, _ = build_harness(work)
        s = rp["schedule"]
        lines, summ = drive(vdrive, [s], work, shards=1)
        bad, _ = monitor(lines, [s], fam, work)
        ids = set(families.PROPS[prop].get("monitors", [prop]))
        mine = [b for b in bad if b[2] in ids]
        for t in lines:
            print(json.dumps({k: t[k] for k in ("i", "l", "evs") if k in t})[:400])
        for b in mine:
            print("VIOLATION property=%s replay=%s   (%s)" % (prop, path, b[3]))
        return 1 if mine else 0
    except Machinery as e:
        print("MACHINERY-ERROR", e)
        return 2
    finally:
        shutil.rmtree(work, ignore_errors=True)
