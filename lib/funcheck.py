"""Checks of the function-level properties (C09 ...): the specification is a transcription, TLC proves the property on it
over the whole bounded domain and emits a table; the Go driver replays the table into the real functions; TLC judges
what the real functions returned (Mon*.tla)."""
import os, re, json, time, shutil, subprocess
import vlib

def build_vfunc(scratch):
    hdir = vlib.harness_copy(scratch)
    out = os.path.join(scratch, "vfunc")
    p = vlib.sh(["go", "build", "-tags", "verif", "-o", out, "./cmd/vfunc"], cwd=hdir, env=vlib.GOENV, timeout=1500)
    if p.returncode != 0:
        raise vlib.Machinery("vfunc does not build:\n" + (p.stdout + p.stderr)[-3000:])
    return out

def evidence(prop, tier, seed, level, cov, assumptions, wall, viol):
    ev = {"property_id": prop, "tier": tier, "seed": seed, "level": level, "coverage": cov,
          "assumptions": assumptions, "wall_s": round(wall, 1), "violations": viol}
    edir = os.environ.get("VERIF_EVIDENCE_DIR", os.path.join(vlib.VERIF, "evidence"))
    os.makedirs(edir, exist_ok=True)
    json.dump(ev, open(os.path.join(edir, prop + ".json"), "w"), indent=1)

def run_c09(prop, tier, seed):
    t0 = time.time()
    os.makedirs(vlib.CACHE, exist_ok=True)
    work = os.path.join(vlib.CACHE, "c09-%d" % os.getpid())
    shutil.rmtree(work, ignore_errors=True); os.makedirs(work)
    try:
        vfunc = build_vfunc(work)
        vlib.spec_copy(work)
        cfg = "ChunkQ" if tier == "quick" else "ChunkAll"
        out, rc, wall = vlib.tlc(work, "MCChunk", cfg, timeout=3400)
        r = vlib.parse_tlc(out)
        if r["violated"] or r["error"] or not r.get("complete"):
            raise vlib.Machinery("Chunk.tla does not pass TLC: %s %s" % (r["violated"], r["error"]))
        rows = re.findall(r'<<"CHUNK", (\d+), (\d+), (\d+), (\d+)>>', out)
        with open(os.path.join(work, "table.txt"), "w") as f:
            for row in rows:
                f.write(" ".join(row) + "\n")
        p = vlib.sh([vfunc, "-what", "chunk", "-in", os.path.join(work, "table.txt"), "-out", os.path.join(work, "chunk.ndjson"),
                     "-allmembers", "128" if tier == "quick" else "320"], timeout=3000)
        if p.returncode != 0:
            raise vlib.Machinery("vfunc chunk failed: " + p.stderr[-2000:])
        summ = json.loads(p.stdout.strip().splitlines()[-1])
        mout, rc, mwall = vlib.tlc(work, "MonChunk", workers=1, timeout=3000, env=dict(os.environ, JAVA_TOOL_OPTIONS="-Xss256m"))
        m = re.search(r'<<"VERDICT", (\d+), (\d+), <<(\d+), (\d+)>>>>', mout)
        if not m or int(m.group(1)) != len(rows):
            raise vlib.Machinery("MonChunk did not consume the table: " + mout[-2000:])
        bad = [(m.group(3), m.group(4))] * int(m.group(2))
        samples = [json.loads(l) for l in open(os.path.join(work, "chunk.ndjson")).readlines()[:: max(1, len(rows) // 5)]][:6]
        cov = {"states": r["distinct"], "transitions": r["generated"], "traces_validated_against_impl": len(rows),
               "samples": samples, "pairs_n_t": len(rows), "vbucket_discovery_get_calls": summ["get_calls"],
               "spec_vs_code_mismatches": summ["spec_mismatches"], "first_mismatch": summ["first_mismatch"],
               "exhaustive": tier == "thorough",
               "domain": "n in (1..96) + {127,128,129,255,256,512,1000,1023,1024}, all t in 1..n" if tier == "quick" else "all 1 <= t <= n <= 1024",
               "evaluations": len(rows), "distinct_nontrivial": len(rows),
               "rule": "a case is one (n,t) pair: TLC checks Partition + ClosedForm on the transcription; the real ChunkSlice result "
                       "(run-length form) and VBucketDiscovery.Get per member are judged by MonChunk.tla"}
        viol = 0
        cov["history_calls_on_one_discovery_object"] = summ.get("history_calls", 0)
        cov["history_mismatches"] = summ.get("history_mismatches", 0)
        if bad or summ.get("history_mismatches"):
            rp = os.path.join(os.environ.get("VERIF_EVIDENCE_DIR", os.path.join(vlib.VERIF, "evidence")), "replay"); os.makedirs(rp, exist_ok=True)
            dst = os.path.join(rp, "C09-pairs.json")
            json.dump({"family": "chunk", "violating_pairs": len(bad), "smallest": bad[0] if bad else None,
                       "history_mismatches": summ.get("history_mismatches"), "first": summ.get("first_mismatch")}, open(dst, "w"))
            viol = len(bad) + summ.get("history_mismatches", 0)
            if not bad:
                bad = [("history", summ.get("first_mismatch"))]
        evidence(prop, tier, seed, "model_checking", cov,
                 ["helpers.ChunkSlice and VBucketDiscovery.Get with static membership are the code under test; the transcription in "
                  "Chunk.tla is checked against them pair by pair", "TLC and the Go harness are trusted"], time.time() - t0, viol)
        print("property=C09 tier=%s: TLC %d (n,t) pairs on Chunk.tla; %d pairs replayed into ChunkSlice, %d Get calls; %d spec/code "
              "mismatches; %d pairs violate Partition" % (tier, r["distinct"], len(rows), summ["get_calls"], summ["spec_mismatches"], viol))
        if bad:
            print("VIOLATION property=C09 replay=%s   (ChunkSlice / VBucketDiscovery.Get is not an exact partition for (n,t) = %s ...)" % (dst, bad[0]))
            return 1
        return 0
    except vlib.Machinery as e:
        print("MACHINERY-ERROR property=%s %s" % (prop, e))
        return 2
    finally:
        shutil.rmtree(work, ignore_errors=True)

def run(prop, tier, seed):
    return {"C09": run_c09}[prop](prop, tier, seed)


# ---------------------------------------------------------------------------------------------------------------------
def health_patterns(tier, seed):
    """every sequence of five ping outcomes (2^5; a success ends a round, the next outcome belongs to a new round; five
    failures in a row end the process), and Stop() at every position of every such sequence (before a ping, while it is
    in flight, during a retry wait, between rounds)"""
    import itertools, random
    rnd = random.Random(seed)

    def play(bits, stop_at=None):
        """labels for the outcome sequence; stop_at = index of the label position where Stop() is inserted"""
        labels = [{"a": "Start"}]
        phase, attempt, k = "idle", 0, 0
        seq = []
        # first lay out the plain sequence
        i = 0
        while i < len(bits):
            if phase == "idle":
                seq.append({"a": "Tick"}); phase, attempt = "ping", 1
            elif phase == "wait":
                seq.append({"a": "Retry"}); phase, attempt = "ping", attempt + 1
            else:
                ok = bits[i]; i += 1
                seq.append({"a": "PingRet", "ok": ok})
                if ok:
                    phase, attempt = "idle", 0
                elif attempt == 5:
                    phase = "dead"; break
                else:
                    phase = "wait"
        if stop_at is None:
            return labels + seq + ([{"a": "Quiesce"}] if phase != "dead" else [])
        if stop_at > len(seq) or (phase == "dead" and stop_at >= len(seq)):
            return None
        pre = seq[:stop_at]
        out = labels + pre + [{"a": "Stop"}]
        if pre and pre[-1]["a"] in ("Tick", "Retry"):          # a ping is in flight: it returns, then Stop returns
            fails = 0
            for x in reversed(pre[:-1]):
                if x["a"] == "PingRet" and not x["ok"]:
                    fails += 1
                elif x["a"] == "PingRet":
                    break
            out.append({"a": "PingRet", "ok": True if fails >= 4 else rnd.random() < 0.5})
        return out + [{"a": "Stop"}, {"a": "Start"}, {"a": "Quiesce"}]

    out = []
    for bits in itertools.product([False, True], repeat=5):
        out.append(play(bits))
    # many rounds: five and more failures over the life of the checker, never five in a row within one round
    F, S = False, True
    longs = [(F, S) * 5, (F, F, F, F, S, F, S), (F, F, S, F, F, S, F, F, S), (F, F, F, S, F, F, F, S), (S, F, F, F, F, S, F, F, F, F, S)]
    for k in range(3 if tier == "quick" else 40):
        l = []
        while sum(1 for x in l if not x) < 6:
            run = rnd.randint(1, 4)
            l += [F] * run + [S]
        longs.append(tuple(l))
    for bits in longs:
        out.append(play(bits))
    for bits in itertools.product([False, True], repeat=5):
        n = len(play(bits)) - 2
        dead_end = not any(bits)
        positions = range(0, n + (0 if dead_end else 1))
        if tier == "quick":
            positions = sorted(set(rnd.sample(list(positions), min(3, len(positions)))))
        for pos in positions:
            sc = play(bits, pos)
            if sc:
                out.append(sc)
    return out


def run_c19(prop, tier, seed):
    t0 = time.time()
    os.makedirs(vlib.CACHE, exist_ok=True)
    work = os.path.join(vlib.CACHE, "c19-%d" % os.getpid())
    shutil.rmtree(work, ignore_errors=True); os.makedirs(work)
    try:
        vdrive, _ = vlib.build_harness(work)
        vlib.spec_copy(work)
        out, rc, wall = vlib.tlc(work, "MCHealth", "MCHealth", timeout=600)
        r = vlib.parse_tlc(out)
        if r["violated"] or r["error"] or not r.get("complete"):
            raise vlib.Machinery("HealthCheck.tla does not pass TLC: %s %s" % (r["violated"], r["error"]))
        pats = health_patterns(tier, seed)
        with open(os.path.join(work, "labels.ndjson"), "w") as f:
            for p in pats:
                f.write(json.dumps(p) + "\n")
        rout, rc, _ = vlib.tlc(work, "ReplayHealth", workers=1, timeout=600)
        open(os.path.join(work, "rep.txt"), "w").write(rout)
        scheds = vlib.sched_extract.extract(os.path.join(work, "rep.txt"))
        bad_scn = [s.get("j") for s in scheds if not s.get("complete", True)]
        if len(scheds) != len(pats) or bad_scn:
            raise vlib.Machinery("health scenarios are not behaviours of HealthCheck.tla: %s of %s came back, incomplete %s\n%s"
                                 % (len(scheds), len(pats), bad_scn[:5], rout[-1500:]))
        sout, rc, _ = vlib.tlc(work, "MCHealth", "SimHealth", workers=1, timeout=600,
                               extra=["-simulate", "num=%d" % (30 if tier == "quick" else 300), "-depth", "16", "-seed", str(seed)])
        open(os.path.join(work, "sim.txt"), "w").write(sout)
        sims = [vlib.sched_extract.strip_nops(s) for s in vlib.sched_extract.extract(os.path.join(work, "sim.txt"))]
        allsch = sorted(scheds, key=lambda s: s.get("j", 0)) + sims
        for i, s in enumerate(allsch):
            s["id"] = i + 1; s["driver"] = "health"; s["isolate"] = True; s["nvb"] = 0
            s["src"] = "pattern#%s" % s.get("j") if "j" in s else "sim"
        lines, summ = vlib.drive(vdrive, allsch, work, shards=16)
        fam = {"monitor": "MonHealth"}
        bad, nev = vlib.monitor(lines, allsch, fam, work)
        died = sum(1 for t in lines for e in (t.get("evs") or []) if e.get("ev") == "Died")
        skipped = [t for t in lines if t.get("skipped") and t["skipped"] != "process is down"]
        viols = []
        rp = os.path.join(os.environ.get("VERIF_EVIDENCE_DIR", os.path.join(vlib.VERIF, "evidence")), "replay"); os.makedirs(rp, exist_ok=True)
        smap = {s["id"]: s for s in allsch}
        for run, line, pid, msg in bad:
            dst = os.path.join(rp, "C19-seed%d-run%d.json" % (seed, run))
            json.dump({"family": "health", "schedule": smap[run], "trace": [t for t in lines if t["run"] == run]}, open(dst, "w"))
            viols.append((dst, msg, smap[run]["src"]))
        cov = {"states": r["distinct"], "transitions": r["generated"], "traces_validated_against_impl": len(allsch),
               "samples": [{"schedule": " ".join(vlib.lab(st["l"]) for st in s["steps"])} for s in allsch[:3] + allsch[-1:]],
               "outcome_sequences": 32, "schedules": len(allsch), "steps_executed": summ["steps"],
               "steps_not_executable": len(skipped), "runs_that_ended_in_fail_stop": died, "observable_events_monitored_by_tlc": nev,
               "evaluations": len(allsch), "distinct_nontrivial": len(allsch), "exhaustive": True,
               "rule": "all 2^5 success/failure patterns of a round (a round ends at its first success), a second round after every "
                       "survivable one, Stop() at the positions of a round, random TLC behaviours; each run in its own process"}
        evidence(prop, tier, seed, "model_checking", cov,
                 ["the real couchbase.NewHealthCheck runs against a fake client whose Ping is a gate; Interval 25 ms, the 1 s retry wait is real time",
                  "rounds started by the free-running ticker that a schedule does not continue are answered with a successful ping",
                  "Stop() before any Start() is not explored"], time.time() - t0, len(viols))
        print("property=C19 tier=%s: TLC %d states of HealthCheck.tla; %d schedules (%d fail-stops) on the real health checker; %d steps not "
              "executable; %d violations" % (tier, r["distinct"], len(allsch), died, len(skipped), len(viols)))
        for dst, msg, src in viols[:10]:
            print("VIOLATION property=C19 replay=%s   (%s; %s)" % (dst, msg, src))
        return 1 if viols else 0
    except vlib.Machinery as e:
        print("MACHINERY-ERROR property=%s %s" % (prop, e))
        return 2
    finally:
        shutil.rmtree(work, ignore_errors=True)


def run(prop, tier, seed):  # noqa: F811
    return {"C09": run_c09, "C19": run_c19}[prop](prop, tier, seed)


# ---------------------------------------------------------------------------------------------------------------------
# malformed / partial version strings with the result Parse (Version.tla) gives for their field structure
VERSION_STRINGS = {
    "7": [7, 0, 0, 0], "7.6": [7, 6, 0, 0], "7.6.3": [7, 6, 3, 0], "7.6.3-4200": [7, 6, 3, 4200],
    "7.6.3-4200-enterprise": [7, 6, 3, 4200], "7.6.3-x-enterprise": [7, 6, 3, 0], "7.6.3-enterprise": [7, 6, 3, 0],
    "6.5.0-0000-community": [6, 5, 0, 0], "5.5.0-1-enterprise": [5, 5, 0, 1], "7.2.0-5325-enterprise": [7, 2, 0, 5325],
    "6.6.5-10080-enterprise": [6, 6, 5, 10080], "7.10.12-123456-community": [7, 10, 12, 123456],
    "": "err", "x": "err", "x.6.3": "err", "7.x": "err", "7.x.3": "err", "7.6.x": "err", "7.6.x-1": "err", "7.6.-1": "err",
    "7..3": "err", ".6.3": "err", "v7.6.3": "err", "7.6.3.9-10-enterprise": [7, 6, 3, 0],
}


def run_c18(prop, tier, seed):
    t0 = time.time()
    os.makedirs(vlib.CACHE, exist_ok=True)
    work = os.path.join(vlib.CACHE, "c18-%d" % os.getpid())
    shutil.rmtree(work, ignore_errors=True); os.makedirs(work)
    try:
        vfunc = build_vfunc(work)
        vlib.spec_copy(work)
        cfg = "MCVersionQ" if tier == "quick" else "MCVersion"
        out, rc, wall = vlib.tlc(work, "Version", cfg, timeout=3000)
        r = vlib.parse_tlc(out)
        if r["violated"] or r["error"] or not r.get("complete"):
            raise vlib.Machinery("Version.tla does not pass TLC: %s %s" % (r["violated"], r["error"]))
        rows = re.findall(r'<<"VER", <<(\d+), (\d+), (\d+), (\d+)>>, <<(\d+), (\d+), (\d+), (\d+)>>, "([^"]*)">>', out)
        with open(os.path.join(work, "vtable.txt"), "w") as f:
            for row in rows:
                f.write(" ".join(row) + "\n")
        env = dict(os.environ, VERIF_VERSION_STRINGS="|".join(VERSION_STRINGS))
        p = subprocess.run([vfunc, "-what", "version", "-in", os.path.join(work, "vtable.txt"), "-out", os.path.join(work, "version.ndjson")],
                           capture_output=True, text=True, env=env, timeout=3000)
        if p.returncode != 0:
            raise vlib.Machinery("vfunc version failed: " + p.stderr[-2000:])
        summ = json.loads(p.stdout.strip().splitlines()[-1])
        mout, rc, _ = vlib.tlc(work, "MonVersion", workers=1, timeout=3000, env=dict(os.environ, JAVA_TOOL_OPTIONS="-Xss256m"))
        m = re.search(r'<<"VERDICT", (\d+), (\d+), (.*)>>', mout)
        if not m or int(m.group(1)) != len(rows):
            raise vlib.Machinery("MonVersion did not consume the table: " + mout[-2000:])
        nbad = int(m.group(2))
        strbad = {s: (summ["strings"].get(s), want) for s, want in VERSION_STRINGS.items() if summ["strings"].get(s) != want}
        # a well-formed string that does not parse to its tuple breaks the property; a malformed one only has to be handled
        # the way the specification's parser says (conformance)
        wellformed_bad = {s: v for s, v in strbad.items() if re.fullmatch(r"\d+\.\d+\.\d+-\d+-[a-z]+", s)}
        viol = nbad + len(wellformed_bad)
        cov = {"states": r["distinct"], "transitions": r["generated"], "traces_validated_against_impl": len(rows),
               "samples": [json.loads(l) for l in open(os.path.join(work, "version.ndjson")).readlines()[:: max(1, len(rows) // 4)]][:5],
               "pairs": len(rows), "triples_checked_by_tlc": r["distinct"] * int(round(r["distinct"] ** 0.5)),
               "version_strings": len(VERSION_STRINGS), "string_parse_differences_from_spec": strbad,
               "evaluations": len(rows), "distinct_nontrivial": len(rows), "exhaustive": True,
               "rule": "a case is an ordered pair of version tuples of the grid (transitivity: all triples, in TLC); the real "
                       "Higher/Equal/Lower, the three gate expressions and the parser are evaluated for every pair and judged by MonVersion.tla"}
        dst = None
        if viol:
            rp = os.path.join(os.environ.get("VERIF_EVIDENCE_DIR", os.path.join(vlib.VERIF, "evidence")), "replay"); os.makedirs(rp, exist_ok=True)
            dst = os.path.join(rp, "C18-pairs.json")
            json.dump({"family": "version", "bad_pairs": nbad, "example": m.group(3), "strings": wellformed_bad}, open(dst, "w"))
        evidence(prop, tier, seed, "model_checking", cov,
                 ["Version methods and nodeVersionFromString (through the verif-only export) are the code under test; the gates are the "
                  "expressions of dcp.go / stream.go re-stated in the driver (the gating inside newDcp needs a cluster: rig B)"],
                 time.time() - t0, viol)
        print("property=C18 tier=%s: TLC %d pairs (all triples for transitivity) on Version.tla; %d pairs + %d strings through the real "
              "code; %d pairs violate the order/gate/parse rules; %d strings differ from the specification's parser"
              % (tier, r["distinct"], len(rows), len(VERSION_STRINGS), nbad, len(strbad)))
        if strbad and not viol:
            print("  divergence (not a verdict): version strings handled differently from Version.tla: %s" % list(strbad.items())[:3])
        if viol:
            print("VIOLATION property=C18 replay=%s   (version comparison / gating / parsing is not a consistent total order: %s %s)"
                  % (dst, m.group(3)[:80], list(wellformed_bad.items())[:2]))
            return 1
        return 0
    except vlib.Machinery as e:
        print("MACHINERY-ERROR property=%s %s" % (prop, e))
        return 2
    finally:
        shutil.rmtree(work, ignore_errors=True)


def run(prop, tier, seed):  # noqa: F811
    return {"C09": run_c09, "C19": run_c19, "C18": run_c18}[prop](prop, tier, seed)


# ---------------------------------------------------------------------------------------------------------------------
def async_orders():
    """every order of the environment's steps around one call: submit error; server outcome (ok / fail / silent);
    the deadline before the completion, between its two statements, after it, or never"""
    out = [[{"a": "Submit", "ok": False}, {"a": "Quiesce"}],
           [{"a": "Submit", "ok": True}, {"a": "Deadline"}, {"a": "Quiesce"}]]          # silent server
    for o in ("ok", "fail"):
        cb = [{"a": "CbStart", "o": o}, {"a": "CbResolve"}, {"a": "CbSend"}]
        out.append([{"a": "Submit", "ok": True}] + cb + [{"a": "Quiesce"}])
        for pos in range(0, 4):
            seq = cb[:pos] + [{"a": "Deadline"}] + cb[pos:]
            out.append([{"a": "Submit", "ok": True}] + seq + [{"a": "Quiesce"}])
        # the completion arrives before the caller has even started waiting
        out.append(cb[:1] + [{"a": "Submit", "ok": True}] + cb[1:] + [{"a": "Quiesce"}])
    return out


def run_c20(prop, tier, seed):
    t0 = time.time()
    os.makedirs(vlib.CACHE, exist_ok=True)
    work = os.path.join(vlib.CACHE, "c20-%d" % os.getpid())
    shutil.rmtree(work, ignore_errors=True); os.makedirs(work)
    try:
        vdrive, _ = vlib.build_harness(work)
        vlib.spec_copy(work)
        out, rc, wall = vlib.tlc(work, "AsyncOp", "MCAsync", timeout=600)
        r = vlib.parse_tlc(out)
        if r["violated"] or r["error"] or not r.get("complete"):
            raise vlib.Machinery("AsyncOp.tla does not pass TLC: %s %s" % (r["violated"], r["error"]))
        # vacuity: with an unbuffered signal channel the same properties must fail
        out2, rc, _ = vlib.tlc(work, "AsyncOp", "MCAsyncUnbuffered", timeout=600)
        if not vlib.parse_tlc(out2)["violated"]:
            raise vlib.Machinery("AsyncOp.tla: the unbuffered variant is not refuted - the properties are vacuous")
        orders = async_orders()
        reps = 6 if tier == "quick" else 60          # the caller's select is a race: repeat every order
        allsch = []
        for k in range(reps):
            for j, o in enumerate(orders):
                allsch.append({"id": len(allsch) + 1, "cfg": {"NVB": 0}, "steps": [{"l": l} for l in o], "driver": "async",
                               "isolate": False, "nvb": 0, "src": "order#%d" % (j + 1)})
        # the real wrappers over real agents against the simulated node: server answers ok / an error status / nothing
        client_w = ["GetVBucketSeqNos", "GetFailOverLogs", "OpenStream", "CloseStream", "GetCollectionIDs"]
        doc_w = ["Get", "CreateDocument", "UpdateDocument", "DeleteDocument", "UpsertXattrs", "GetXattrs", "CreatePath"]
        # ... and the document operations the way the library itself calls them (its own contexts / deadlines): the Couchbase metadata backend
        meta_w = ["MetaLoad", "MetaSave", "MetaClear"]
        nwire = 0
        for wname in client_w + doc_w + meta_w:
            cases = [[{"a": "Submit", "ok": True}, {"a": "CbStart", "o": o}, {"a": "CbResolve"}, {"a": "CbSend"}, {"a": "Quiesce"}] for o in ("ok", "fail")]
            if wname in doc_w + meta_w or tier == "thorough":     # (a silent server costs the 60 s hard-coded in client.go)
                cases.append([{"a": "Submit", "ok": True}, {"a": "Deadline"}, {"a": "Quiesce"}])
            for o in cases:
                allsch.append({"id": len(allsch) + 1, "cfg": {"NVB": 0, "wrapper": wname}, "steps": [{"l": l} for l in o], "driver": "wire",
                               "isolate": True, "nvb": 0, "src": "wire:%s" % wname})
                nwire += 1
        lines, summ = vlib.drive(vdrive, allsch, work, shards=8)
        bad, nev = vlib.monitor(lines, allsch, {"monitor": "MonAsync"}, work)
        # (cbMetadata.Load panics on a goroutine of its own when a checkpoint cannot be read: that run's process ends - fail-stop, not a
        # set-up failure; a Load that neither returns nor dies is what the monitor reports)
        dies = {s["id"] for s in allsch if s["cfg"].get("wrapper") == "MetaLoad"}
        notrun = [t for t in lines if t.get("skipped") and not (t["run"] in dies and t["skipped"] == "process is down")]
        if notrun:
            raise vlib.Machinery("wire runs could not be set up: %s" % [(t["l"], t["skipped"]) for t in notrun[:3]])
        results = {}
        for t in lines:
            for e in t.get("evs") or []:
                if e.get("ev") == "Return":
                    results[e["result"]] = results.get(e["result"], 0) + 1
        viols = []
        rp = os.path.join(os.environ.get("VERIF_EVIDENCE_DIR", os.path.join(vlib.VERIF, "evidence")), "replay"); os.makedirs(rp, exist_ok=True)
        smap = {s["id"]: s for s in allsch}
        seen = set()
        for run, line, pid, msg in bad:
            if (smap[run]["src"], msg) in seen:
                continue
            seen.add((smap[run]["src"], msg))
            dst = os.path.join(rp, "C20-seed%d-run%d.json" % (seed, run))
            json.dump({"family": "async", "schedule": smap[run], "trace": [t for t in lines if t["run"] == run]}, open(dst, "w"))
            viols.append((dst, msg, smap[run]["src"]))
        cov = {"states": r["distinct"], "transitions": r["generated"], "traces_validated_against_impl": len(allsch),
               "samples": [{"order": " ".join(vlib.lab(l) for l in o)} for o in orders[:4]],
               "orders": len(orders), "repetitions_of_each_order": reps, "returned_results": results,
               "real_wrapper_runs_against_simulated_node": nwire,
               "observable_events_monitored_by_tlc": nev, "evaluations": len(allsch), "distinct_nontrivial": len(orders),
               "liveness_checked_by_tlc": ["Returns", "CallbackFinishes"], "vacuity": "unbuffered-signal variant refuted by TLC",
               "rule": "a case is an order of {submit, server outcome, the two statements of the completion callback, deadline}; "
                       "the caller's select is a real race, so every order is repeated"}
        evidence(prop, tier, seed, "model_checking", cov,
                 ["the real couchbase.NewAsyncOp is driven statement by statement through the pattern the wrappers of client.go / doc_op.go use "
                  "(re-stated in the driver); in addition every real wrapper (5 of client.go, 7 of doc_op.go) is called over real gocbcore agents "
                  "against the simulated node answering ok / an error status / nothing (silent: doc_op.go always, client.go - 60 s - in thorough)",
                  "gocbcore invokes a pending operation's callback exactly once, from inside Cancel if the cancel wins (assumed)"],
                 time.time() - t0, len(viols))
        print("property=C20 tier=%s: TLC %d states of AsyncOp.tla (safety + liveness; unbuffered variant refuted); %d runs of %d orders on the "
              "real AsyncOp + %d calls of the 12 real wrappers and the metadata backend against the simulated node; results %s; %d violations" % (tier, r["distinct"], len(allsch) - nwire, len(orders), nwire, results, len(viols)))
        for dst, msg, src in viols[:10]:
            print("VIOLATION property=C20 replay=%s   (%s; %s)" % (dst, msg, src))
        return 1 if viols else 0
    except vlib.Machinery as e:
        print("MACHINERY-ERROR property=%s %s" % (prop, e))
        return 2
    finally:
        shutil.rmtree(work, ignore_errors=True)


def run(prop, tier, seed):  # noqa: F811
    return {"C09": run_c09, "C19": run_c19, "C18": run_c18, "C20": run_c20}[prop](prop, tier, seed)


# ---------------------------------------------------------------------------------------------------------------------
C17_SPECS = [  # (module, quick cfg, thorough cfg, what the bounded domain is)
    ("Config", "MCConfigQ", "MCConfig", "ApplyDefaults: nothing / everything / every single option (quick) and every pair of options (thorough) set "
                                         "explicitly, to the default value itself or to another value, x 4 environment cases; second application"),
    ("ConfigGet", "MCConfigGetQ", "MCConfigGet", "derived Couchbase-metadata / membership / leader-election settings: override maps with <= 1 (quick) / <= 3 "
                                                  "(thorough) keys present, and the full map, x 2 main settings"),
    ("MCDataUnit", "MCDataUnitQ", "MCDataUnit", "size strings: integer part x fraction digits (<= 3) x '.'|',' x blanks x unit spellings; plain integers"),
    ("EnvSubst", "MCEnvSubstQ", "MCEnvSubst", "${VAR} layouts of <= 3 (quick) / <= 5 (thorough) tokens over 2 variables x which variables are set"),
]


def run_c17(prop, tier, seed):
    t0 = time.time()
    os.makedirs(vlib.CACHE, exist_ok=True)
    work = os.path.join(vlib.CACHE, "c17-%d" % os.getpid())
    shutil.rmtree(work, ignore_errors=True); os.makedirs(work)
    try:
        vfunc = build_vfunc(work)
        vlib.spec_copy(work)
        runs, nrows = [], {}
        with open(os.path.join(work, "table.txt"), "w") as tab:
            for mod, cq, ct, note in C17_SPECS:
                cfg = cq if tier == "quick" else ct
                out, rc, wall = vlib.tlc(work, mod, cfg, timeout=3000)
                r = vlib.parse_tlc(out)
                if r["violated"] or r["error"] or not r.get("complete"):
                    raise vlib.Machinery("%s does not pass TLC: %s %s\n%s" % (cfg, r["violated"], r["error"], out[-1500:]))
                runs.append(dict(r, cfg=cfg, constants=note, wall_s=round(wall, 1)))
                for m in re.finditer(r'^<<"(CFG|GET|UNIT|SUBST)", "(.*)">>$', out, re.M):
                    tab.write("%s %s\n" % (m.group(1), vlib.sched_extract.tla_unescape(m.group(2))))
                    nrows[m.group(1)] = nrows.get(m.group(1), 0) + 1
        if len(nrows) != 4 or min(nrows.values()) == 0:
            raise vlib.Machinery("a specification printed no table rows: %s" % nrows)
        p = subprocess.run([vfunc, "-what", "config", "-in", os.path.join(work, "table.txt"), "-out", os.path.join(work, "mon.ndjson")],
                           capture_output=True, text=True, timeout=1500)
        if p.returncode != 0:
            raise vlib.Machinery("vfunc config failed: " + p.stderr[-2000:])
        n = sum(1 for _ in open(os.path.join(work, "mon.ndjson")))
        if n != sum(nrows.values()):
            raise vlib.Machinery("vfunc returned %d of %d rows" % (n, sum(nrows.values())))
        mout, rc, _ = vlib.tlc(work, "MonConfig", workers=1, timeout=3000, env=dict(os.environ, JAVA_TOOL_OPTIONS="-Xss256m"))
        m = re.search(r'<<"VERDICT", (\d+), "(.*)">>', mout)
        if not m or int(m.group(1)) != n:
            raise vlib.Machinery("MonConfig did not consume the table (%s of %d rows)\n%s" % (m.group(1) if m else "?", n, mout[-1500:]))
        bad = json.loads(vlib.sched_extract.tla_unescape(m.group(2)))
        rows = open(os.path.join(work, "mon.ndjson")).read().splitlines()
        viols = []
        rp = os.path.join(os.environ.get("VERIF_EVIDENCE_DIR", os.path.join(vlib.VERIF, "evidence")), "replay"); os.makedirs(rp, exist_ok=True)
        seen = set()
        for _, pos, pid, msg in sorted(bad, key=lambda b: b[1]):
            if msg in seen:
                continue
            seen.add(msg)
            dst = os.path.join(rp, "C17-row%d.json" % pos)
            json.dump({"family": "config", "row": json.loads(rows[pos - 1]), "message": msg}, open(dst, "w"))
            viols.append((dst, msg))
        cov = {"states": sum(r["distinct"] for r in runs), "transitions": sum(r["generated"] for r in runs),
               "traces_validated_against_impl": n, "model_checking_runs": runs, "table_rows_replayed_into_real_code": nrows,
               "rows_violating": len(bad), "samples": [json.loads(rows[0]), json.loads(rows[-1])],
               "evaluations": n, "exhaustive": True,
               "rule": "every row TLC printed for the bounded domains above is executed by the real ApplyDefaults (twice), the real getters, "
                       "the real ResolveUnionIntOrStringValue and the real newDcpConfig; MonConfig.tla (TLC) judges every result"}
        evidence(prop, tier, seed, "model_checking", cov,
                 ["pure functions: the specifications are transcriptions; the binding is table replay, the verdict TLC's on the real outputs",
                  "option values are two representatives per option (the default value itself, another value); 64-bit sizes beyond 2 GiB "
                  "cannot be represented in TLC's 32-bit integers and are not covered",
                  "applyLogging defaults the level only while no logger exists; the harness clears the logger before the first application"],
                 time.time() - t0, len(viols))
        print("property=C17 tier=%s: TLC %d states of Config/ConfigGet/DataUnit/EnvSubst; %d rows (%s) through the real code; %d rows violate; "
              "%d violations" % (tier, cov["states"], n, ", ".join("%s %d" % kv for kv in sorted(nrows.items())), len(bad), len(viols)))
        for dst, msg in viols[:10]:
            print("VIOLATION property=C17 replay=%s   (%s)" % (dst, msg))
        return 1 if viols else 0
    except vlib.Machinery as e:
        print("MACHINERY-ERROR property=%s %s" % (prop, e))
        return 2
    finally:
        shutil.rmtree(work, ignore_errors=True)


def run(prop, tier, seed):  # noqa: F811
    return {"C09": run_c09, "C19": run_c19, "C18": run_c18, "C20": run_c20, "C17": run_c17}[prop](prop, tier, seed)
