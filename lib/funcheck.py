"""Checks of the function-level properties (C09 ...): the specification is a transcription, TLC proves the property on it
over the whole bounded domain and emits a table; the Go driver replays the table into the real functions; TLC judges
what the real functions returned (Mon*.tla)."""
import os, re, json, time, shutil, subprocess
import vlib

def build_vfunc(scratch):
    hdir = os.path.join(vlib.VERIF, "harness")
    mod = os.path.join(scratch, "go.mod")
    open(mod, "w").write(open(os.path.join(hdir, "go.mod.tmpl")).read().replace("@REPO@", vlib.REPO))
    shutil.copy(os.path.join(vlib.REPO, "go.sum"), os.path.join(scratch, "go.sum"))
    out = os.path.join(scratch, "vfunc")
    p = vlib.sh(["go", "build", "-tags", "verif", "-modfile", mod, "-o", out, "./cmd/vfunc"], cwd=hdir, env=vlib.GOENV, timeout=1500)
    if p.returncode != 0:
        raise vlib.Machinery("vfunc does not build:\n" + (p.stdout + p.stderr)[-3000:])
    return out

def evidence(prop, tier, seed, level, cov, assumptions, wall, viol):
    ev = {"property_id": prop, "tier": tier, "seed": seed, "level": level, "coverage": cov,
          "assumptions": assumptions, "wall_s": round(wall, 1), "violations": viol}
    os.makedirs(os.path.join(vlib.VERIF, "evidence"), exist_ok=True)
    json.dump(ev, open(os.path.join(vlib.VERIF, "evidence", prop + ".json"), "w"), indent=1)

def run_c09(prop, tier, seed):
    t0 = time.time()
    os.makedirs(vlib.CACHE, exist_ok=True)
    work = os.path.join(vlib.CACHE, "c09-%d" % os.getpid())
    shutil.rmtree(work, ignore_errors=True); os.makedirs(work)
    try:
        vfunc = build_vfunc(work)
        vlib.spec_copy(work)
        cfg = "ChunkQ" if tier == "quick" else "ChunkAll"
        out, rc, wall = vlib.tlc(work, "MCChunk", cfg, timeout=3400)
        r = vlib.parse_tlc(out)
        if r["violated"] or r["error"] or not r.get("complete"):
            raise vlib.Machinery("Chunk.tla does not pass TLC: %s %s" % (r["violated"], r["error"]))
        rows = re.findall(r'<<"CHUNK", (\d+), (\d+), (\d+), (\d+)>>', out)
        with open(os.path.join(work, "table.txt"), "w") as f:
            for row in rows:
                f.write(" ".join(row) + "\n")
        p = vlib.sh([vfunc, "-what", "chunk", "-in", os.path.join(work, "table.txt"), "-out", os.path.join(work, "chunk.ndjson"),
                     "-allmembers", "128" if tier == "quick" else "320"], timeout=3000)
        if p.returncode != 0:
            raise vlib.Machinery("vfunc chunk failed: " + p.stderr[-2000:])
        summ = json.loads(p.stdout.strip().splitlines()[-1])
        mout, rc, mwall = vlib.tlc(work, "MonChunk", workers=1, timeout=3000, env=dict(os.environ, JAVA_TOOL_OPTIONS="-Xss256m"))
        m = re.search(r'<<"VERDICT", (\d+), (\d+), <<(\d+), (\d+)>>>>', mout)
        if not m or int(m.group(1)) != len(rows):
            raise vlib.Machinery("MonChunk did not consume the table: " + mout[-2000:])
        bad = [(m.group(3), m.group(4))] * int(m.group(2))
        samples = [json.loads(l) for l in open(os.path.join(work, "chunk.ndjson")).readlines()[:: max(1, len(rows) // 5)]][:6]
        cov = {"states": r["distinct"], "transitions": r["generated"], "traces_validated_against_impl": len(rows),
               "samples": samples, "pairs_n_t": len(rows), "vbucket_discovery_get_calls": summ["get_calls"],
               "spec_vs_code_mismatches": summ["spec_mismatches"], "first_mismatch": summ["first_mismatch"],
               "exhaustive": tier == "thorough",
               "domain": "n in (1..96) + {127,128,129,255,256,512,1000,1023,1024}, all t in 1..n" if tier == "quick" else "all 1 <= t <= n <= 1024",
               "evaluations": len(rows), "distinct_nontrivial": len(rows),
               "rule": "a case is one (n,t) pair: TLC checks Partition + ClosedForm on the transcription; the real ChunkSlice result "
                       "(run-length form) and VBucketDiscovery.Get per member are judged by MonChunk.tla"}
        viol = 0
        if bad:
            rp = os.path.join(vlib.VERIF, "evidence", "replay"); os.makedirs(rp, exist_ok=True)
            dst = os.path.join(rp, "C09-pairs.json")
            json.dump({"family": "chunk", "violating_pairs": len(bad), "smallest": bad[0]}, open(dst, "w"))
            viol = len(bad)
        evidence(prop, tier, seed, "model_checking", cov,
                 ["helpers.ChunkSlice and VBucketDiscovery.Get with static membership are the code under test; the transcription in "
                  "Chunk.tla is checked against them pair by pair", "TLC and the Go harness are trusted"], time.time() - t0, viol)
        print("property=C09 tier=%s: TLC %d (n,t) pairs on Chunk.tla; %d pairs replayed into ChunkSlice, %d Get calls; %d spec/code "
              "mismatches; %d pairs violate Partition" % (tier, r["distinct"], len(rows), summ["get_calls"], summ["spec_mismatches"], viol))
        if bad:
            print("VIOLATION property=C09 replay=%s   (ChunkSlice / VBucketDiscovery.Get is not an exact partition for (n,t) = %s ...)" % (dst, bad[0]))
            return 1
        return 0
    except vlib.Machinery as e:
        print("MACHINERY-ERROR property=%s %s" % (prop, e))
        return 2
    finally:
        shutil.rmtree(work, ignore_errors=True)

def run(prop, tier, seed):
    return {"C09": run_c09}[prop](prop, tier, seed)
