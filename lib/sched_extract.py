#!/usr/bin/env python3
"""Extract the JSON schedules that a Sim*.tla module printed with PrintT(<<"SCHED", ToJson(..)>>)."""
import sys, json, re

def tla_unescape(s):
    out = []; i = 0
    while i < len(s):
        c = s[i]
        if c == "\\" and i + 1 < len(s):
            n = s[i + 1]
            out.append({"n": "\n", "t": "\t", '"': '"', "\\": "\\"}.get(n, n)); i += 2
        else:
            out.append(c); i += 1
    return "".join(out)

def extract(path):
    res = []
    with open(path, errors="replace") as f:
        for line in f:
            if line.startswith('<<"SCHED", "'):
                body = line.rstrip("\n")
                body = body[len('<<"SCHED", "'):]
                if body.endswith('">>'):
                    body = body[:-3]
                res.append(json.loads(tla_unescape(body)))
    return res

def strip_nops(s):
    s["steps"] = [st for st in s["steps"] if st["l"].get("a") != "Nop"]
    return s

if __name__ == "__main__":
    src, dst = sys.argv[1], sys.argv[2]
    base = int(sys.argv[3]) if len(sys.argv) > 3 else 0
    n = 0
    with open(dst, "w") as o:
        for s in extract(src):
            s = strip_nops(s); n += 1; s["id"] = base + n
            o.write(json.dumps(s, separators=(",", ":")) + "\n")
    print(n)
