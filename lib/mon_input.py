#!/usr/bin/env python3
"""trace.ndjson (driver output) -> mon.ndjson (flat observable events with Reset markers) for MonTrace.tla"""
import sys, json
src, dst = sys.argv[1], sys.argv[2]
n = 0
with open(src) as f, open(dst, "w") as o:
    cur = None
    for line in f:
        t = json.loads(line)
        if t.get("summary"):
            continue
        if t["run"] != cur:
            cur = t["run"]
            o.write(json.dumps({"ev": "Reset", "run": cur}) + "\n"); n += 1
        for e in (t.get("evs") or []):
            e.pop("msg", None)
            o.write(json.dumps(e, separators=(",", ":")) + "\n"); n += 1
print(n)
