// Package verifsd executes schedules of MemberSD.tla on groups of real servicediscovery.ServiceDiscovery objects.
//
// The two loops of a serviceDiscovery sleep for a hard-coded 5 s per iteration; the schedules are therefore run inside a
// testing/synctest bubble (Go 1.25+): time is virtual, a sleeping goroutine wakes exactly when the schedule's Tock moves
// the clock there, and the run is deterministic. The pod-to-pod RPC layer (one fixed port per pod, net/rpc) cannot be
// multiplied on one host: the Client interface of the package is implemented by direct calls into the peer's real rpc
// Handler / ServiceDiscovery, failing exactly when one end is dead. The election callbacks (stream/leader_election.go)
// are reproduced call by call, minus the dialling.
//
//	VERIF_SD_IN=schedules.ndjson VERIF_SD_OUT=trace.ndjson ./vsd.test -test.run TestDrive
package verifsd

import (
	"bufio"
	"encoding/json"
	"errors"
	"fmt"
	"os"
	"sort"
	"sync"
	"testing"
	"testing/synctest"
	"time"

	"github.com/Trendyol/go-dcp/config"
	"github.com/Trendyol/go-dcp/helpers"
	"github.com/Trendyol/go-dcp/logger"
	"github.com/Trendyol/go-dcp/membership"
	"github.com/Trendyol/go-dcp/models"
	"github.com/Trendyol/go-dcp/servicediscovery"
	"github.com/asaskevich/EventBus"
	"github.com/sirupsen/logrus"
)

type Ev = map[string]any

type Step struct {
	L    map[string]any `json:"l"`
	Evs  []any          `json:"evs"`
	Post map[string]any `json:"post"`
}
type Schedule struct {
	ID    int            `json:"id"`
	Cfg   map[string]any `json:"cfg"`
	Steps []Step         `json:"steps"`
}
type TraceLine struct {
	Run     int            `json:"run"`
	I       int            `json:"i"`
	L       map[string]any `json:"l"`
	Evs     []Ev           `json:"evs"`
	Post    Ev             `json:"post,omitempty"`
	Skipped string         `json:"skipped,omitempty"`
	Diff    string         `json:"diff,omitempty"`
}

type inst struct {
	i     int
	id    *models.Identity
	sd    servicediscovery.ServiceDiscovery
	h     *servicediscovery.Handler
	bus   EventBus.Bus
	alive bool
	last  []any // projection frozen at death (a killed process does nothing any more; the loops of this one run on, inert)
}

type world struct {
	mu    sync.Mutex
	evs   []Ev
	inst  map[int]*inst
	lease int
	unit  time.Duration
	jt    int64
}

func (w *world) emit(e Ev) { w.mu.Lock(); w.evs = append(w.evs, e); w.mu.Unlock() }
func (w *world) drain() []Ev {
	w.mu.Lock()
	defer w.mu.Unlock()
	r := w.evs
	w.evs = nil
	return r
}

var errDown = errors.New("peer is down")

// fakeClient is the rpc client of pod `from` towards pod `to`
type fakeClient struct {
	w        *world
	from, to *inst
}

func (c *fakeClient) ok() bool          { return c.from.alive && c.to.alive }
func (c *fakeClient) Close() error      { return nil }
func (c *fakeClient) IsConnected() bool { return true }
func (c *fakeClient) Ping() error {
	if !c.ok() {
		return errDown
	}
	var reply servicediscovery.Pong
	return c.to.h.Ping(servicediscovery.Ping{From: c.from.id}, &reply)
}
func (c *fakeClient) Reconnect() error {
	if !c.ok() {
		return errDown
	}
	return nil
}

// Register: what Handler.Register does on the target, with a direct client back to the caller instead of a dialled one
func (c *fakeClient) Register() error {
	if !c.ok() {
		return errDown
	}
	back := &fakeClient{w: c.w, from: c.to, to: c.from}
	c.to.sd.Add(servicediscovery.NewService(back, c.from.id.Name, c.from.id.ClusterJoinTime))
	return nil
}
func (c *fakeClient) Rebalance(memberNumber int, totalMembers int) error {
	if !c.ok() {
		return errDown
	}
	var reply bool
	return c.to.h.Rebalance(servicediscovery.Rebalance{From: c.from.id, MemberNumber: memberNumber, TotalMembers: totalMembers}, &reply)
}

func num(v any) int {
	f, _ := v.(float64)
	return int(f)
}

func (w *world) start(i int, p, d int) {
	off := time.Duration(i) * 3 * time.Millisecond
	time.Sleep(off)
	w.jt++
	in := &inst{i: i, alive: true, id: &models.Identity{IP: fmt.Sprintf("10.0.0.%d", i), Name: fmt.Sprintf("pod-%d", i), ClusterJoinTime: w.jt}}
	cfg := &config.Dcp{}
	cfg.Dcp.Group.Membership.RebalanceDelay = time.Duration(d) * w.unit
	in.bus = EventBus.New()
	_ = in.bus.SubscribeAsync(helpers.MembershipChangedBusEventName, func(m *membership.Model) {
		if in.alive {
			w.emit(Ev{"ev": "Announce", "i": i, "n": m.MemberNumber, "t": m.TotalMembers})
		}
	}, true)
	in.sd = servicediscovery.NewServiceDiscovery(cfg, in.bus)
	in.h = servicediscovery.VerifNewHandler(0, in.id, in.sd)
	w.inst[i] = in
	w.emit(Ev{"ev": "Joined", "i": i})
	in.sd.StartHeartbeat()
	in.sd.StartMonitor()
	time.Sleep(w.unit - off)
	synctest.Wait()
}

func (w *world) exec(l map[string]any, p, d int) string {
	a, _ := l["a"].(string)
	i := num(l["i"])
	in := w.inst[i]
	if a != "Start" && a != "Tock" && a != "Stable" && in == nil {
		return "no such instance"
	}
	switch a {
	case "Start":
		if in != nil {
			return "already started"
		}
		w.start(i, p, d)
	case "Restart": // the pod is started again under the same name: a new process, the old one's objects stay dead
		if in.alive {
			return "still alive"
		}
		w.start(i, p, d)
	case "Tock":
		time.Sleep(w.unit)
		synctest.Wait()
	case "Die":
		in.last = w.proj(in)
		in.alive = false
		in.sd.StopHeartbeat()
		in.sd.StopMonitor()
		if w.lease == i {
			w.lease = 0
		}
		w.emit(Ev{"ev": "Gone", "i": i})
	case "Acquire":
		w.lease = i
	case "BecomeLeader": // leaderElection.OnBecomeLeader
		in.sd.BeLeader()
		in.sd.RemoveLeader()
		w.emit(Ev{"ev": "Leader", "i": i})
	case "BecomeFollower": // leaderElection.OnBecomeFollower(leaderIdentity)
		ld := w.inst[w.lease]
		if ld == nil {
			return "nobody holds the lease"
		}
		in.sd.DontBeLeader()
		in.sd.RemoveAll()
		in.sd.RemoveLeader()
		c := &fakeClient{w: w, from: in, to: ld}
		in.sd.AssignLeader(servicediscovery.NewService(c, ld.id.Name, ld.id.ClusterJoinTime))
		if err := c.Register(); err != nil {
			return "register failed: " + err.Error() // (the real handler panics)
		}
		synctest.Wait()
	case "Stable":
		synctest.Wait()
		w.emit(Ev{"ev": "Stable"})
	default:
		return "unknown label " + a
	}
	return ""
}

func (w *world) proj(in *inst) []any {
	byName := map[string]int{}
	for i, x := range w.inst {
		byName[x.id.Name] = i
	}
	l, ld, sv, mn, tm := servicediscovery.VerifState(in.sd)
	sl := []any{}
	for _, s := range sv {
		sl = append(sl, byName[s])
	}
	return []any{[]any{mn, tm}, l, byName[ld], sl}
}

func (w *world) post(n int) Ev {
	info, leaderOf, services, am := make([]any, n), make([]any, n), make([]any, n), make([]any, n)
	for i := 1; i <= n; i++ {
		info[i-1], leaderOf[i-1], services[i-1], am[i-1] = []any{0, 0}, 0, []any{}, false
		in := w.inst[i]
		if in == nil {
			continue
		}
		pr := in.last
		if in.alive {
			pr = w.proj(in)
		} else if sl, ok := pr[3].([]any); ok {
			// (the projection of a dead instance is frozen, but the specification lists services in the CURRENT join order:
			// a pod restarted since then has moved to the end)
			sl = append([]any{}, sl...)
			sort.SliceStable(sl, func(a, b int) bool {
				x, y := w.inst[sl[a].(int)], w.inst[sl[b].(int)]
				return x != nil && y != nil && x.id.ClusterJoinTime < y.id.ClusterJoinTime
			})
			pr = []any{pr[0], pr[1], pr[2], sl}
		}
		info[i-1], am[i-1], leaderOf[i-1], services[i-1] = pr[0], pr[1], pr[2], pr[3]
	}
	return Ev{"up": true, "info": info, "leaderOf": leaderOf, "services": services, "amLeader": am}
}

func canon(v any) string { b, _ := json.Marshal(v); return string(b) }

func diff(st Step, tl TraceLine) string {
	var want, got []string
	for _, e := range st.Evs {
		want = append(want, canon(e))
	}
	for _, e := range tl.Evs {
		got = append(got, canon(e))
	}
	sort.Strings(want)
	sort.Strings(got)
	if fmt.Sprint(want) != fmt.Sprint(got) {
		return fmt.Sprintf("events: want %v got %v", want, got)
	}
	for k, wv := range st.Post {
		if gv, ok := tl.Post[k]; ok && canon(wv) != canon(gv) {
			return fmt.Sprintf("post.%s: want %s got %s", k, canon(wv), canon(gv))
		}
	}
	return ""
}

func runOne(t *testing.T, sch *Schedule) (lines []TraceLine) {
	synctest.Test(t, func(t *testing.T) {
		p, d, n := num(sch.Cfg["P"]), num(sch.Cfg["D"]), num(sch.Cfg["N"])
		w := &world{inst: map[int]*inst{}, unit: 5 * time.Second / time.Duration(p)}
		for k, st := range sch.Steps {
			tl := TraceLine{Run: sch.ID, I: k + 1, L: st.L}
			if msg := w.exec(st.L, p, d); msg != "" {
				tl.Skipped = msg
			}
			tl.Evs = w.drain()
			tl.Post = w.post(n)
			if tl.Skipped == "" && st.Post != nil {
				tl.Diff = diff(st, tl)
			}
			lines = append(lines, tl)
		}
		for _, in := range w.inst {
			in.alive = false
			in.sd.StopHeartbeat()
			in.sd.StopMonitor()
		}
		time.Sleep(20 * time.Second) // the loops notice the stop flag at their next iteration and end
	})
	return lines
}

func TestDrive(t *testing.T) {
	in, out := os.Getenv("VERIF_SD_IN"), os.Getenv("VERIF_SD_OUT")
	if in == "" {
		t.Skip("no schedules")
	}
	l := logrus.New()
	l.SetLevel(logrus.PanicLevel)
	logger.Log = &logger.Loggers{Logrus: l}
	f, err := os.Open(in)
	if err != nil {
		t.Fatal(err)
	}
	defer f.Close()
	o, _ := os.Create(out)
	defer o.Close()
	wr := bufio.NewWriterSize(o, 1<<20)
	defer wr.Flush()
	sc := bufio.NewScanner(f)
	sc.Buffer(make([]byte, 1<<20), 1<<28)
	runs, steps, diverged, skipped := 0, 0, 0, 0
	for sc.Scan() {
		var sch Schedule
		if json.Unmarshal(sc.Bytes(), &sch) != nil {
			continue
		}
		lines := runOne(t, &sch)
		runs++
		div := false
		for _, tl := range lines {
			steps++
			if tl.Skipped != "" {
				skipped++
			}
			if tl.Diff != "" || tl.Skipped != "" {
				div = true
			}
			b, _ := json.Marshal(tl)
			wr.Write(b)
			wr.WriteByte('\n')
		}
		if div {
			diverged++
		}
	}
	b, _ := json.Marshal(map[string]any{"summary": true, "runs": runs, "steps": steps, "diverged_runs": diverged, "skipped_steps": skipped})
	wr.Write(b)
	wr.WriteByte('\n')
}
